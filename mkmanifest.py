#!/usr/bin/env python3
"""Regenerates MANIFEST.json from props.json (claimed checks) and the static not-applicable list."""
import json, os, subprocess
ROOT = os.path.dirname(os.path.abspath(__file__))
props = json.load(open(os.path.join(ROOT, "props.json")))
ALL = ["C%02d" % i for i in range(1, 21)]
NA = {
    "C12": "Decision function of one parsed request and one Upgrader configuration: no schedule, clock, transport fault or interleaving occurs in the statement, so deterministic simulation has nothing to vary; generating requests from the handshake grammar would be plain input generation (DESIGN.md section 1).",
    "C13": "Pure predicate on two strings (Host, Origin); no concurrency, time, I/O or multi-party behaviour for a simulator to control (DESIGN.md section 1).",
}
hook_commits = subprocess.run(["git", "-C", "/repo", "log", "--format=%H", "--", "verif_hooks.go"], stdout=subprocess.PIPE, text=True).stdout.split()
checks = []
for pid in ALL:
    if pid not in props:
        continue
    m = props[pid]
    checks.append({
        "property_id": pid,
        "quick_cmd": "./check %s quick" % pid,
        "thorough_cmd": "./check %s thorough" % pid,
        "evidence_file": "evidence/%s.json" % pid,
        "replay_cmd_template": "./check replay {path}",
        "engine": "wsim",
        "level_claimed": {"category": m["level"], "text": m["level_text"], "design_ref": m.get("design_ref", "DESIGN.md section 7, " + pid)},
        "level_note": m["level_note"],
        "technique": m.get("technique", "deterministic simulation with fault injection: seeded schedule/fault search over the real library on a simulated network, clock and scheduler"),
    })
na = []
for pid in ALL:
    if pid in props:
        continue
    na.append({"property_id": pid, "reason": NA.get(pid, "No check registered yet: the simulator family for this property is still being built (see DESIGN.md); not claimed until its check runs clean on the unchanged tree.")})
man = {
    "version": 1,
    "setup_cmd": "./setup.sh",
    "hooks": {
        "guard": "verif",
        "enable": "go1.26.8 test -c -tags verif (GOTOOLCHAIN=local) from /verif/sim with replace github.com/gorilla/websocket => /repo",
        "baseline_off_cmd": "cd /repo && GOFLAGS=-mod=mod go test -vet=off -count=1 -timeout 25m ./...",
        "source_commits": hook_commits,
        "add_only": True,
    },
    "engines": [{
        "name": "wsim", "path": "sim",
        "serves_properties": [c["property_id"] for c in checks],
        "kind_free_text": "deterministic simulator (Go test binary, testing/synctest bubble): serialising seeded scheduler, simulated TCP-like network with segmentation/back-pressure/stalls/cuts/op-indexed faults/deadlines/wire taps, fake clock, independent RFC 6455/7692 codec as scripted peer and tap judge, scenario+tape replay files, shrinker; race-detector build for the concurrency properties",
    }],
    "checks": checks,
    "not_applicable": na,
    "notes": "All checks are driven by ./check (python3, stdlib only). VERIF_SEED selects the base seed; VERIF_QUICK_S / VERIF_THOROUGH_S override the wall budgets. Exit 2 means build or harness trouble, never a violation.",
}
json.dump(man, open(os.path.join(ROOT, "MANIFEST.json"), "w"), indent=1)
print("MANIFEST.json: %d checks, %d not applicable" % (len(checks), len(na)))
