#!/bin/sh
# Builds both simulator binaries from /repo's working tree (offline) and warms the build cache.
set -e
cd "$(dirname "$0")"
export GOFLAGS=-mod=mod GOPROXY=off GOSUMDB=off GOTOOLCHAIN=local
./check build
