package wsim

import (
	"syscall"
	"unsafe"
)

// The arena holds every byte that travels through SimNet (pipe rings and
// wire taps). It is an anonymous mapping outside the Go heap, so the race
// detector keeps no shadow state for it: the simulator's own hand-over of
// bytes from one goroutine to another is invisible to the detector (exactly
// like a kernel socket buffer), while the library-side half of every copy is
// still instrumented because the copy is done by the calling goroutine in
// ordinary code (copyIn/copyOut below).

const arenaSize = 1 << 31 // virtual; pages are committed on first touch

type arena struct {
	base []byte
	off  int
	high int
}

var theArena arena

func (a *arena) init() {
	if a.base != nil {
		return
	}
	b, err := syscall.Mmap(-1, 0, arenaSize, syscall.PROT_READ|syscall.PROT_WRITE,
		syscall.MAP_ANON|syscall.MAP_PRIVATE|syscall.MAP_NORESERVE)
	if err != nil {
		panic("wsim: mmap arena: " + err.Error())
	}
	a.base = b
}

// reset releases everything allocated since the last reset. Pages that were
// touched are handed back to the kernel when the high-water mark is large.
func (a *arena) reset() {
	if a.off > a.high {
		a.high = a.off
	}
	if a.high > 256<<20 {
		_ = syscall.Madvise(a.base[:a.high], syscall.MADV_DONTNEED)
		a.high = 0
	}
	a.off = 0
}

//go:norace
func (a *arena) alloc(n int) []byte {
	n = (n + 63) &^ 63
	if a.off+n > len(a.base) {
		panic("wsim: arena exhausted")
	}
	p := unsafe.Slice(&a.base[a.off], n)
	a.off += n
	return p[:n:n]
}

// copyIn copies library bytes into arena memory; the read of src is visible
// to the race detector.
func copyIn(dst, src []byte) int { return copy(dst, src) }

// copyOut copies arena bytes into a library buffer; the write of dst is
// visible to the race detector.
func copyOut(dst, src []byte) int { return copy(dst, src) }

// arenaSlice returns an empty slice of pointer-free T with capacity n whose
// backing store is arena memory (no zeroing, no GC work, invisible to the
// race detector).
//
//go:norace
func arenaSlice[T any](n int) []T {
	var z T
	b := theArena.alloc(n * int(unsafe.Sizeof(z)))
	return unsafe.Slice((*T)(unsafe.Pointer(&b[0])), n)[:0]
}
