package wsim

import (
	"io"
	"bufio"
	"bytes"
	"context"
	"crypto/sha1"
	"encoding/base64"
	"fmt"
	"net"
	"net/http"
	"reflect"
	"strings"
	"sync"
	"time"

	"github.com/gorilla/websocket"
)

// ---------------------------------------------------------------------------
// Endpoints of a link: real (library) ends and scripted peers.
// ---------------------------------------------------------------------------

// HandlerCall is one invocation of a control-frame handler on a real end.
type HandlerCall struct {
	Op        int
	Data      string
	Code      int
	Delivered int // bytes of the current message delivered to the application so far
	MsgIndex  int // index of the message being read (number of completed NextReader successes)
	Step      uint64
	T         int64
	Returned  string // "" or "err"
}

// RealEnd is one library endpoint of a link.
type RealEnd struct {
	Link     int
	IsServer bool
	Cfg      *EndCfg
	Conn     *websocket.Conn
	Net      *SimConn // the transport the library holds (client: as dialled; server: as accepted)
	Resp     *http.Response
	HsErr    error
	HsErrClass string
	HsStart, HsEnd int64
	Negotiated bool // permessage-deflate in the 101
	Tasks    []*Task
	Handlers []HandlerCall
	delivered int
	msgIndex  int
	nHandler  int
	Pool     *poolView
	ReqSeen  *http.Request // server: the request as net/http (or the mini server) parsed it
	Resp101  []byte
	NetType  string // dynamic type of the net.Conn the library holds (reveals the brNetConn wrapper)
	started  bool
	done     chan struct{}
}

type PeerEnd struct {
	Link      int
	IsServer  bool
	Net       *SimConn
	Key       string
	Request   []byte // client's request as seen by a scripted server
	Response  []byte // server's reply head as seen by a scripted client
	Negotiated bool
	Err       string
	ScriptLen int
	done      chan struct{}
}

type runner struct {
	sim   *Sim
	net   *Net
	scn   *Scenario
	reals [maxLinks * 2]*RealEnd // slot link*2 (client) / link*2+1 (server)
	peers [maxLinks]*PeerEnd
	pools [4]*simPool
	pms   []*websocket.PreparedMessage
	pmSrc [][]byte
	barrier int
	root  *Task
}

const maxLinks = 4

func acceptKey(key string) string {
	h := sha1.New()
	h.Write([]byte(key))
	h.Write([]byte("258EAFA5-E914-47DA-95CA-C5AB0DC85B11"))
	return base64.StdEncoding.EncodeToString(h.Sum(nil))
}

func (rn *runner) pool(k int, end int) websocket.BufferPool {
	if k == 0 {
		return nil
	}
	return &poolView{p: rn.pools[k], end: end, sim: rn.sim}
}

func linkAddr(i int) string { return fmt.Sprintf("srv%d:80", i) }

// registerLink creates the ends of link i and registers its server node.
// All links are registered (by the root goroutine) before any client starts.
func (rn *runner) registerLink(i int) {
	l := &rn.scn.Links[i]
	addr := linkAddr(i)
	if l.Client != nil {
		rn.newReal(i, false, l.Client)
	} else {
		rn.newPeer(i, false)
	}
	if l.Server != nil {
		rn.newReal(i, true, l.Server)
	} else {
		rn.newPeer(i, true)
	}
	switch {
	case l.Server != nil && l.Server.Server == "nethttp":
		lis := rn.net.Listen(addr)
		srv := &http.Server{Handler: http.HandlerFunc(func(w http.ResponseWriter, r *http.Request) {
			rn.upgrade(i, w, r, nil)
		})}
		go srv.Serve(lis)
	case l.Server != nil:
		rn.net.Handle(addr, func(c *SimConn) { rn.miniServe(i, c) })
	default:
		rn.net.Handle(addr, func(c *SimConn) { rn.scriptedServer(i, c) })
	}
}

// startLink starts the client side of link i.
func (rn *runner) startLink(i int) {
	l := &rn.scn.Links[i]
	if l.Client != nil {
		rn.sim.GoID(i*16, fmt.Sprintf("dial%d", i), func(t *Task) { rn.dialReal(i, t) })
	} else {
		rn.sim.GoID(i*16, fmt.Sprintf("peer%d", i), func(t *Task) { rn.scriptedClient(i, t) })
	}
}

// ---------------------------------------------------------------------------
// Real client
// ---------------------------------------------------------------------------

func (rn *runner) dialReal(i int, t *Task) {
	l := &rn.scn.Links[i]
	cfg := l.Client
	end := rn.reals[i*2]
	defer close(end.done)
	var got *SimConn
	d := websocket.Dialer{
		NetDialContext: func(ctx context.Context, network, addr string) (net.Conn, error) {
			c, err := rn.net.Dial(t, addr)
			if sc, ok := c.(*SimConn); ok {
				got = sc
			}
			return c, err
		},
		ReadBufferSize:    cfg.ReadBuf,
		WriteBufferSize:   cfg.WriteBuf,
		EnableCompression: cfg.Compression,
		Subprotocols:      cfg.Subprotocols,
	}
	if cfg.Pool != 0 {
		pv := rn.pool(cfg.Pool, i*2).(*poolView)
		end.Pool = pv
		d.WriteBufferPool = pv
	}
	if cfg.HsTimeoutMs > 0 {
		d.HandshakeTimeout = time.Duration(cfg.HsTimeoutMs) * time.Millisecond
	}
	end.HsStart = int64(rn.sim.Now())
	conn, resp, err := d.DialContext(context.Background(), "ws://"+linkAddr(i)+"/x?y=1", http.Header(cfg.ReqHeader))
	end.HsEnd = int64(rn.sim.Now())
	end.Net = got
	end.Resp = resp
	if err != nil {
		end.HsErr = err
		end.HsErrClass = classify(err)
		rn.sim.Reserve(-len(l.CTasks))
		return
	}
	end.Conn = conn
	end.Negotiated = resp != nil && strings.Contains(resp.Header.Get("Sec-Websocket-Extensions"), "permessage-deflate")
	rn.configure(end)
	rn.spawn(end, l.CTasks, i*16+1)
}

// ---------------------------------------------------------------------------
// Real server (mini server with a stub hijacker, or real net/http)
// ---------------------------------------------------------------------------

type stubRW struct {
	conn     net.Conn
	br       *bufio.Reader
	bw       *bufio.Writer
	hdr      http.Header
	status   int
	body     bytes.Buffer
	hijacked bool
}

func (w *stubRW) Header() http.Header { return w.hdr }
func (w *stubRW) WriteHeader(s int) {
	if w.status == 0 {
		w.status = s
	}
}
func (w *stubRW) Write(p []byte) (int, error) {
	if w.status == 0 {
		w.status = 200
	}
	return w.body.Write(p)
}
func (w *stubRW) Hijack() (net.Conn, *bufio.ReadWriter, error) {
	w.hijacked = true
	return w.conn, bufio.NewReadWriter(w.br, w.bw), nil
}

func (rn *runner) miniServe(i int, c *SimConn) {
	cfg := rn.scn.Links[i].Server
	rs, ws := cfg.HijackR, cfg.HijackW
	if rs == 0 {
		rs = 4096
	}
	if ws == 0 {
		ws = 4096
	}
	br := bufio.NewReaderSize(c, rs)
	req, err := http.ReadRequest(br)
	if err != nil {
		rn.sim.Reserve(-len(rn.scn.Links[i].STasks))
		c.Close()
		return
	}
	w := &stubRW{conn: c, br: br, bw: bufio.NewWriterSize(c, ws), hdr: http.Header{}}
	rn.upgrade(i, w, req, c)
	if !w.hijacked {
		st := w.status
		if st == 0 {
			st = 200
		}
		var b bytes.Buffer
		fmt.Fprintf(&b, "HTTP/1.1 %d %s\r\n", st, http.StatusText(st))
		w.hdr.Set("Content-Length", fmt.Sprint(w.body.Len()))
		w.hdr.Write(&b)
		b.WriteString("\r\n")
		b.Write(w.body.Bytes())
		c.Write(b.Bytes())
		c.Close()
	}
}

func (rn *runner) upgrade(i int, w http.ResponseWriter, r *http.Request, sc *SimConn) {
	l := &rn.scn.Links[i]
	cfg := l.Server
	end := rn.reals[i*2+1]
	if end.started {
		return // a second request on the same link (not generated)
	}
	end.started = true
	end.ReqSeen = r
	defer close(end.done)
	u := websocket.Upgrader{
		ReadBufferSize:    cfg.ReadBuf,
		WriteBufferSize:   cfg.WriteBuf,
		EnableCompression: cfg.Compression,
		CheckOrigin:       func(*http.Request) bool { return true },
		Subprotocols:      cfg.Subprotocols,
	}
	if cfg.Pool != 0 {
		pv := rn.pool(cfg.Pool, i*2+1).(*poolView)
		end.Pool = pv
		u.WriteBufferPool = pv
	}
	if cfg.HsTimeoutMs > 0 {
		u.HandshakeTimeout = time.Duration(cfg.HsTimeoutMs) * time.Millisecond
	}
	end.HsStart = int64(rn.sim.Now())
	conn, err := u.Upgrade(w, r, nil)
	end.HsEnd = int64(rn.sim.Now())
	if err != nil {
		end.HsErr = err
		end.HsErrClass = classify(err)
		rn.sim.Reserve(-len(l.STasks))
		return
	}
	end.Conn = conn
	end.NetType = fmt.Sprintf("%T", conn.NetConn())
	end.Net = underlyingSim(conn.NetConn())
	end.Negotiated = cfg.Compression && offersDeflate(r.Header)
	rn.configure(end)
	rn.spawn(end, l.STasks, i*16+8)
}

// underlyingSim unwraps the library's brNetConn wrapper (it has a NetConn method).
func underlyingSim(c net.Conn) *SimConn {
	for k := 0; k < 4; k++ {
		if sc, ok := c.(*SimConn); ok {
			return sc
		}
		if u, ok := c.(interface{ NetConn() net.Conn }); ok {
			c = u.NetConn()
			continue
		}
		break
	}
	return nil
}

// offersDeflate is the harness's own reading of an extension offer/answer:
// some extension element in the header list is named permessage-deflate.
func offersDeflate(h http.Header) bool {
	for _, v := range h["Sec-Websocket-Extensions"] {
		for _, ext := range strings.Split(v, ",") {
			name := strings.TrimSpace(strings.SplitN(ext, ";", 2)[0])
			if name == "permessage-deflate" {
				return true
			}
		}
	}
	return false
}

// Ends are created by the root goroutine (startLink) before any other
// goroutine exists; each is then owned by one goroutine until that goroutine
// closes done (a real happens-before edge); the oracle reads an end only
// after receiving from done.
func (rn *runner) newReal(link int, server bool, cfg *EndCfg) *RealEnd {
	e := &RealEnd{Link: link, IsServer: server, Cfg: cfg, done: make(chan struct{})}
	k := link * 2
	if server {
		k++
	}
	rn.reals[k] = e
	return e
}

func (rn *runner) newPeer(link int, server bool) *PeerEnd {
	p := &PeerEnd{Link: link, IsServer: server, done: make(chan struct{})}
	rn.peers[link] = p
	return p
}

func isDone(ch chan struct{}) bool {
	select {
	case <-ch:
		return true
	default:
		return false
	}
}

// configure applies per-connection settings and handlers.
func (rn *runner) configure(e *RealEnd) {
	c := e.Conn
	cfg := e.Cfg
	if cfg.ReadLimit > 0 {
		c.SetReadLimit(cfg.ReadLimit)
	}
	if cfg.SetLevel {
		_ = c.SetCompressionLevel(cfg.Level)
	}
	if cfg.NoWriteComp {
		c.EnableWriteCompression(false)
	}
	if cfg.ResetHandlers {
		// an application that had its own handlers for a while and then restores the defaults
		c.SetPingHandler(func(string) error { return errHandler })
		c.SetPongHandler(func(string) error { return errHandler })
		c.SetCloseHandler(func(int, string) error { return errHandler })
		c.SetPingHandler(nil)
		c.SetPongHandler(nil)
		c.SetCloseHandler(nil)
	}
	if cfg.Handlers == "record" || cfg.Handlers == "error" {
		rec := func(op int, data string, code int) error {
			hc := HandlerCall{Op: op, Data: data, Code: code, Delivered: e.delivered, MsgIndex: e.msgIndex,
				Step: rn.sim.Step(), T: int64(rn.sim.Now())}
			e.nHandler++
			var err error
			if cfg.Handlers == "error" && e.nHandler == cfg.HandlerErrAt {
				hc.Returned = "err"
				err = errHandler
				switch cfg.HandlerErrKind {
				case "eof":
					err = io.EOF
				case "ueof":
					err = io.ErrUnexpectedEOF
				}
			}
			e.Handlers = append(e.Handlers, hc)
			return err
		}
		c.SetPingHandler(func(d string) error { return rec(websocket.PingMessage, d, 0) })
		c.SetPongHandler(func(d string) error { return rec(websocket.PongMessage, d, 0) })
		c.SetCloseHandler(func(code int, text string) error { return rec(websocket.CloseMessage, text, code) })
	} else if cfg.Handlers == "observe" {
		// default behaviour plus a log: wrap the defaults
		ph, ch := c.PingHandler(), c.CloseHandler()
		c.SetPingHandler(func(d string) error {
			e.Handlers = append(e.Handlers, HandlerCall{Op: websocket.PingMessage, Data: d, Delivered: e.delivered, MsgIndex: e.msgIndex, Step: rn.sim.Step(), T: int64(rn.sim.Now())})
			return ph(d)
		})
		c.SetPongHandler(func(d string) error {
			e.Handlers = append(e.Handlers, HandlerCall{Op: websocket.PongMessage, Data: d, Delivered: e.delivered, MsgIndex: e.msgIndex, Step: rn.sim.Step(), T: int64(rn.sim.Now())})
			return nil
		})
		c.SetCloseHandler(func(code int, text string) error {
			e.Handlers = append(e.Handlers, HandlerCall{Op: websocket.CloseMessage, Data: text, Code: code, Delivered: e.delivered, MsgIndex: e.msgIndex, Step: rn.sim.Step(), T: int64(rn.sim.Now())})
			return ch(code, text)
		})
	}
}

var errHandler = fmt.Errorf("handler says no")

func (rn *runner) spawn(e *RealEnd, tasks []TaskCfg, baseID int) {
	for k := range tasks {
		tc := &tasks[k]
		id := baseID + k
		name := fmt.Sprintf("L%d%s-%s%d", e.Link, map[bool]string{false: "c", true: "s"}[e.IsServer], tc.Kind, k)
		t := rn.sim.GoReserved(id, name, func(t *Task) { rn.runTask(e, tc, t) })
		e.Tasks = append(e.Tasks, t)
	}
}

// ---------------------------------------------------------------------------
// Scripted peers
// ---------------------------------------------------------------------------

func readHead(c net.Conn) ([]byte, []byte, error) {
	var buf []byte
	tmp := make([]byte, 4096)
	for {
		if i := bytes.Index(buf, []byte("\r\n\r\n")); i >= 0 {
			return buf[:i+4], buf[i+4:], nil
		}
		n, err := c.Read(tmp)
		buf = append(buf, tmp[:n]...)
		if err != nil {
			if i := bytes.Index(buf, []byte("\r\n\r\n")); i >= 0 {
				return buf[:i+4], buf[i+4:], nil
			}
			return buf, nil, err
		}
	}
}

func (rn *runner) scriptedServer(i int, c *SimConn) {
	l := &rn.scn.Links[i]
	p := rn.peers[i]
	p.Net = c
	defer close(p.done)
	head, _, err := readHead(c)
	p.Request = head
	if err != nil {
		p.Err = "read request: " + err.Error()
		return
	}
	req, err := http.ReadRequest(bufio.NewReader(bytes.NewReader(head)))
	if err != nil {
		p.Err = "parse request: " + err.Error()
		return
	}
	p.Key = req.Header.Get("Sec-Websocket-Key")
	offered := offersDeflate(req.Header)
	p.Negotiated = (offered && l.PeerComp == "") || l.PeerComp == "both"
	if l.PeerComp == "none" {
		p.Negotiated = false
	}
	var b bytes.Buffer
	b.WriteString("HTTP/1.1 101 Switching Protocols\r\nUpgrade: websocket\r\nConnection: Upgrade\r\n")
	b.WriteString("Sec-WebSocket-Accept: " + acceptKey(p.Key) + "\r\n")
	switch {
	case l.PeerExtReply != "":
		b.WriteString("Sec-WebSocket-Extensions: " + l.PeerExtReply + "\r\n")
		p.Negotiated = l.PeerComp == "both"
	case l.PeerComp == "server_only":
		b.WriteString("Sec-WebSocket-Extensions: permessage-deflate; server_no_context_takeover\r\n")
		p.Negotiated = false
	case l.PeerComp == "client_only":
		b.WriteString("Sec-WebSocket-Extensions: permessage-deflate; client_no_context_takeover\r\n")
		p.Negotiated = false
	case p.Negotiated:
		b.WriteString("Sec-WebSocket-Extensions: permessage-deflate; server_no_context_takeover; client_no_context_takeover\r\n")
	}
	b.WriteString("\r\n")
	c.drainForever()
	segs, _ := ExpandScript(l.Script, false, rn.scn.Seed+uint64(i))
	rn.playScript(c, l, b.Bytes(), segs, p)
}

func (rn *runner) scriptedClient(i int, t *Task) {
	l := &rn.scn.Links[i]
	p := rn.peers[i]
	defer close(p.done)
	nc, err := rn.net.Dial(t, linkAddr(i))
	if err != nil {
		p.Err = "dial: " + err.Error()
		return
	}
	c := nc.(*SimConn)
	p.Net = c
	kr := NewPRNG(rn.scn.Seed ^ uint64(i)<<8 ^ 0xc11e)
	var kb [16]byte
	kr.Fill(kb[:])
	p.Key = base64.StdEncoding.EncodeToString(kb[:])
	var b bytes.Buffer
	b.WriteString("GET /x?y=1 HTTP/1.1\r\nHost: " + linkAddr(i) + "\r\nUpgrade: websocket\r\nConnection: Upgrade\r\n")
	b.WriteString("Sec-WebSocket-Key: " + p.Key + "\r\nSec-WebSocket-Version: 13\r\n")
	if l.PeerExt != nil {
		for _, v := range l.PeerExt {
			b.WriteString("Sec-WebSocket-Extensions: " + v + "\r\n")
		}
	} else if l.PeerComp != "none" && l.Server != nil && l.Server.Compression {
		b.WriteString("Sec-WebSocket-Extensions: permessage-deflate; server_no_context_takeover; client_no_context_takeover\r\n")
	}
	b.WriteString("\r\n")
	segs, _ := ExpandScript(l.Script, true, rn.scn.Seed+uint64(i))
	if l.Glue == 0 {
		if _, err := c.Write(b.Bytes()); err != nil {
			p.Err = "write request: " + err.Error()
			return
		}
		head, rest, err := readHead(c)
		p.Response = head
		_ = rest
		if err != nil {
			p.Err = "read response: " + err.Error()
			return
		}
		p.Negotiated = bytes.Contains(bytes.ToLower(head), []byte("permessage-deflate"))
		c.drainForever()
		rn.playScript(c, l, nil, segs, p)
		return
	}
	// glued: the frames follow the request without waiting for the 101
	p.Negotiated = l.Server != nil && l.Server.Compression && l.PeerComp != "none"
	c.drainForever()
	rn.playScript(c, l, b.Bytes(), segs, p)
}

// playScript writes prefix+segments. With Glue the prefix is glued to the
// first segment in one Write; otherwise it is written on its own first.
func (rn *runner) playScript(c *SimConn, l *Link, prefix []byte, segs []Seg, p *PeerEnd) {
	write := func(b []byte) bool {
		for len(b) > 0 {
			n := len(b)
			if l.ScriptChunk > 0 && n > l.ScriptChunk {
				n = l.ScriptChunk
			}
			if _, err := c.Write(b[:n]); err != nil {
				return false
			}
			b = b[n:]
		}
		return true
	}
	if len(prefix) > 0 && l.Glue == 0 {
		if !write(prefix) {
			return
		}
		prefix = nil
	}
	for _, s := range segs {
		p.ScriptLen += len(s.Data)
	}
	for k, s := range segs {
		d := s.Data
		if k == 0 && len(prefix) > 0 {
			d = append(append([]byte{}, prefix...), d...)
			prefix = nil
		}
		if s.WaitStep > 0 {
			rn.sim.WaitStep(nil, s.WaitStep)
		}
		if !write(d) {
			return
		}
		if s.PauseMs < 0 {
			return // stall forever, connection stays open
		}
		if s.PauseMs > 0 {
			time.Sleep(time.Duration(s.PauseMs) * time.Millisecond)
		}
	}
	if len(prefix) > 0 {
		write(prefix)
	}
	switch l.PeerClose {
	case "fin":
		c.Close()
	}
}

// drainForever turns the connection's inbound direction into an infinite
// sink: bytes the other side writes are tapped and dropped.
//
//go:norace
func (c *SimConn) drainForever() {
	c.sim.lock()
	c.in.sink = true
	c.in.n = 0
	c.sim.unlock()
}

// ---------------------------------------------------------------------------
// Instrumented buffer pool
// ---------------------------------------------------------------------------

type poolEvt struct {
	Put  bool
	T    int64
	End  int
	ID   int // identity of the backing array (index in simPool.bufs)
	Step uint64
	Nil  bool // Get returned nil
	Bad  string
}

type simPool struct {
	mu   sync.Mutex // a real mutex: a pool does synchronise Put with the next Get
	free []interface{}
	bufs [][]byte // identity table
	log  []poolEvt
	bad  []string
}

type poolView struct {
	p   *simPool
	end int
	sim *Sim
}

const poison = 0xA5

func bufOf(v interface{}) []byte {
	rv := reflect.ValueOf(v)
	if rv.Kind() == reflect.Struct {
		for i := 0; i < rv.NumField(); i++ {
			f := rv.Field(i)
			if f.Kind() == reflect.Slice && f.Type().Elem().Kind() == reflect.Uint8 {
				return f.Bytes()
			}
		}
	}
	if b, ok := v.([]byte); ok {
		return b
	}
	return nil
}

func (p *simPool) ident(b []byte) int {
	if cap(b) == 0 {
		return -1
	}
	b = b[:1]
	for i, x := range p.bufs {
		if &x[0] == &b[0] {
			return i
		}
	}
	p.bufs = append(p.bufs, b)
	return len(p.bufs) - 1
}

func (v *poolView) Get() interface{} {
	p := v.p
	p.mu.Lock()
	defer p.mu.Unlock()
	if len(p.free) == 0 {
		p.log = append(p.log, poolEvt{End: v.end, Nil: true, ID: -1, Step: v.sim.Step()})
		return nil
	}
	x := p.free[len(p.free)-1]
	p.free = p.free[:len(p.free)-1]
	b := bufOf(x)
	e := poolEvt{End: v.end, ID: p.ident(b), Step: v.sim.Step()}
	b = b[:cap(b)]
	for i := range b {
		if b[i] != poison {
			e.Bad = fmt.Sprintf("buffer %d modified at byte %d after it was returned to the pool", e.ID, i)
			p.bad = append(p.bad, e.Bad)
			break
		}
	}
	p.log = append(p.log, e)
	return x
}

func (v *poolView) Put(x interface{}) {
	p := v.p
	p.mu.Lock()
	defer p.mu.Unlock()
	b := bufOf(x)
	e := poolEvt{Put: true, End: v.end, ID: p.ident(b), Step: v.sim.Step()}
	if b == nil {
		e.Bad = "Put of a value without a byte slice"
		p.bad = append(p.bad, e.Bad)
	}
	for _, f := range p.free {
		if fb := bufOf(f); len(fb) > 0 && len(b) > 0 && &fb[:1][0] == &b[:1][0] {
			e.Bad = fmt.Sprintf("buffer %d put twice", e.ID)
			p.bad = append(p.bad, e.Bad)
		}
	}
	b = b[:cap(b)]
	for i := range b {
		b[i] = poison
	}
	p.free = append(p.free, x)
	p.log = append(p.log, e)
}

// verifyFree checks the poison of every buffer resting in the pool.
func (p *simPool) verifyFree() {
	p.mu.Lock()
	defer p.mu.Unlock()
	for _, x := range p.free {
		b := bufOf(x)
		b = b[:cap(b)]
		for i := range b {
			if b[i] != poison {
				p.bad = append(p.bad, fmt.Sprintf("buffer %d modified at byte %d while resting in the pool", p.ident(b), i))
				break
			}
		}
	}
}
