package wsim

// ---------------------------------------------------------------------------
// Shared generators (swarm parameters of DESIGN §6.2)
// ---------------------------------------------------------------------------

var bufSizes = []int{0, 1, 2, 13, 14, 15, 50, 111, 124, 125, 126, 127, 255, 256, 257, 1024, 4096}

func genBuf(r *PRNG) int {
	if r.Chance(1, 8) {
		return r.Range(1, 8192)
	}
	return bufSizes[r.Intn(len(bufSizes))]
}

// genBufCtl avoids write buffers below the control-frame payload limit where
// a property's workload must not trip over finding §12-4.
func genWBuf(r *PRNG, min int) int {
	for {
		b := genBuf(r)
		if b == 0 || b >= min {
			return b
		}
	}
}

func effW(w int) int {
	if w <= 0 {
		return 4096
	}
	return w
}

// genLen draws a payload length biased to boundaries; w is the effective
// write buffer size of the sender (0 if not applicable).
func genLen(r *PRNG, w int, big bool) int {
	n := genLen0(r, w, big)
	if n < 0 {
		n = 0
	}
	return n
}

func genLen0(r *PRNG, w int, big bool) int {
	switch r.Intn(12) {
	case 0:
		return 0
	case 1:
		return 1
	case 2:
		return r.Pick([]int{124, 125, 126, 127})
	case 3:
		if big {
			return r.Pick([]int{65535, 65536, 65537})
		}
		return r.Range(0, 300)
	case 4:
		if w > 0 {
			k := r.Range(1, 3)
			return k*w + r.Range(-2, 2)
		}
		return r.Range(0, 2000)
	case 5:
		if w > 0 {
			return r.Range(1, 3)*(w+14) + r.Range(-2, 2)
		}
		return r.Range(0, 2000)
	case 6:
		if w > 0 {
			n := 2*(w+14) + r.Range(-1, 1)
			if n < 0 {
				n = 0
			}
			return n
		}
		return r.Range(0, 5000)
	case 7:
		if big {
			return r.Range(10000, 200000)
		}
		return r.Range(0, 5000)
	case 8, 9:
		return r.Range(0, 64)
	default:
		return r.Range(0, 2500)
	}
}

func genKind(r *PRNG, mt int) string {
	if mt == 1 {
		return "text"
	}
	return r.PickS([]string{"rand", "zero", "rep", "rand", "text"})
}

func (p *PRNG) PickS(vs []string) string { return vs[p.Intn(len(vs))] }

func genSizes(r *PRNG, allowZero bool) []int {
	n := r.Range(1, 4)
	out := make([]int, n)
	for i := range out {
		switch r.Intn(8) {
		case 0:
			out[i] = 1
		case 1:
			if allowZero && n > 1 {
				out[i] = 0
			} else {
				out[i] = 2
			}
		case 2:
			out[i] = r.Range(2, 16)
		case 3:
			out[i] = r.Pick([]int{124, 125, 126, 127, 255, 256, 257})
		case 4:
			out[i] = r.Pick([]int{1024, 4096, 4097, 8192})
		case 5:
			out[i] = r.Range(1, 70000)
		default:
			out[i] = r.Range(1, 2000)
		}
	}
	// never all zero
	allZero := true
	for _, v := range out {
		if v != 0 {
			allZero = false
		}
	}
	if allZero {
		out[0] = 3
	}
	return out
}

// genReadProg draws a read program. style: "" any | "noabandon" | "json" | "join"
func genReadProg(r *PRNG, style string) []ROp {
	switch style {
	case "json":
		return []ROp{{Kind: "json"}}
	case "join":
		return []ROp{{Kind: "join", Sizes: genSizes(r, false), Term: r.PickS([]string{"", "\n", "--"})}}
	}
	n := r.Range(1, 3)
	var ops []ROp
	for i := 0; i < n; i++ {
		switch r.Intn(4) {
		case 0:
			ops = append(ops, ROp{Kind: "rm"})
		default:
			op := ROp{Kind: "nr", Sizes: genSizes(r, true)}
			if style != "noabandon" && r.Chance(1, 4) {
				op.Abandon = r.Pick([]int{1, 2, 5, 100, 1000})
				if r.Chance(1, 6) {
					op.Abandon = -1 // no read at all
				}
			}
			ops = append(ops, op)
		}
	}
	return ops
}

func genSched(r *PRNG) SchedCfg {
	c := SchedCfg{}
	c.Personality = r.PickS([]string{"uniform", "uniform", "netfirst", "starve", "bursty"})
	if c.Personality == "starve" {
		c.StarveKey = r.Pick([]int{1, 2, 9, 10, 1000, 1001})
	}
	c.ReadMode = r.PickS([]string{"mixed", "all", "one", "uniform", "small"})
	return c
}

func genCap(r *PRNG) int {
	return r.Pick([]int{1, 2, 7, 64, 256, 1024, 4096, 16384, 65536, 1 << 20})
}

// genChunks splits n bytes into write calls of assorted kinds.
func genChunks(r *PRNG, n int) []Chunk {
	var out []Chunk
	rem := n
	k := r.Range(1, 5)
	for i := 0; i < k; i++ {
		how := r.PickS([]string{"w", "w", "s", "rf", "z"})
		sz := rem
		if i < k-1 {
			sz = r.Range(0, rem)
			if r.Chance(1, 3) && rem > 0 {
				sz = r.Range(0, min(rem, 16))
			}
		}
		c := Chunk{How: how, N: sz}
		if how == "z" {
			c.N = 0
			sz = 0
		}
		if how == "rf" {
			c.RfChunk = r.Pick([]int{0, 1, 7, 100, 5000})
			c.RfEOF = r.Bool()
		}
		out = append(out, c)
		rem -= sz
		if r.Chance(1, 12) {
			// a compression setting changed while the message is open: it governs subsequent messages only
			if r.Bool() {
				out = append(out, Chunk{How: r.PickS([]string{"e+", "e-"})})
			} else {
				out = append(out, Chunk{How: "l", N: r.Range(-2, 9)})
			}
		}
	}
	if rem > 0 {
		out = append(out, Chunk{How: "w", N: rem})
	}
	return out
}

// genWriteOp draws one data-message write op.
func genWriteOp(r *PRNG, w int, big bool, prepared int) WOp {
	mt := r.Range(1, 2)
	ln := genLen(r, w, big)
	pay := Payload{Len: ln, Kind: genKind(r, mt), Seed: r.Uint64() >> 1}
	switch r.Intn(10) {
	case 0, 1, 2:
		return WOp{Kind: "msg", MT: mt, Pay: pay}
	case 3:
		if ln > 3000 {
			pay.Len = r.Range(0, 3000)
		}
		pay.Kind = "json"
		return WOp{Kind: "json", MT: 1, Pay: pay}
	case 4:
		if prepared > 0 {
			return WOp{Kind: "prep", PM: r.Intn(prepared)}
		}
		return WOp{Kind: "msg", MT: mt, Pay: pay}
	default:
		op := WOp{Kind: "nw", MT: mt, Pay: pay, Chunks: genChunks(r, ln), End: "close"}
		if r.Chance(1, 5) {
			op.End = "implicit"
		}
		return op
	}
}

// genScriptMsg draws one conformant data message of a peer script.
func genScriptMsg(r *PRNG, compNegotiated bool, big bool, allowCtl bool) SItem {
	mt := r.Range(1, 2)
	ln := genLen(r, 0, big)
	it := SItem{Kind: "msg", MT: mt, Pay: Payload{Len: ln, Kind: genKind(r, mt), Seed: r.Uint64() >> 1}}
	it.KeyMode = r.PickS([]string{"rand", "rand", "rand", "zero", "ones"})
	if compNegotiated && r.Chance(1, 2) {
		it.Comp = 1 + r.Intn(5)
		it.Lvl = r.Pick([]int{-2, 0, 1, 5, 9})
		it.Block = r.Pick([]int{0, 1, 17, 300, 70000})
		if it.Comp-1 == 2 && ln > 20000 { // fixed-Huffman literal encoder is slow-ish and expands; keep it modest
			it.Pay.Len = r.Range(0, 20000)
		}
	}
	nf := r.Pick([]int{0, 0, 1, 2, 3, 6})
	for i := 0; i < nf; i++ {
		switch r.Intn(5) {
		case 0:
			it.Frags = append(it.Frags, 0)
		case 1:
			it.Frags = append(it.Frags, 1)
		case 2:
			it.Frags = append(it.Frags, r.Pick([]int{125, 126, 127, 65535, 65536}))
		default:
			it.Frags = append(it.Frags, r.Range(0, ln+1))
		}
	}
	if allowCtl {
		nc := r.Pick([]int{0, 0, 1, 2, 3})
		for i := 0; i < nc; i++ {
			d := make([]byte, r.Pick([]int{0, 1, 5, 124, 125, r.Range(0, 125)}))
			r.Fill(d)
			it.Ctls = append(it.Ctls, CtlAt{After: r.Range(-1, nf), Op: r.Pick([]int{9, 10}), Data: d})
		}
	}
	return it
}
