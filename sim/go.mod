module wsim

go 1.26.8

require (
	github.com/gorilla/websocket v0.0.0
	golang.org/x/net v0.26.0
)

replace github.com/gorilla/websocket => /repo
