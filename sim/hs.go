package wsim

import (
	"bufio"
	"bytes"
	"context"
	"crypto/ed25519"
	"crypto/rand"
	"crypto/tls"
	"crypto/x509"
	"crypto/x509/pkix"
	"encoding/base64"
	"fmt"
	"io"
	"math/big"
	"net"
	"net/http"
	"net/url"
	"strings"
	"time"

	"github.com/gorilla/websocket"
)

// ---------------------------------------------------------------------------
// Family D: handshakes over a topology of nodes (client, optional proxy,
// backend). Everything runs on SimNet inside the bubble.
// ---------------------------------------------------------------------------

// Reply describes what a byzantine backend answers to an upgrade request.
type Reply struct {
	Status     int         `json:"status"`
	StatusLine string      `json:"status_line,omitempty"` // overrides "HTTP/1.1 <status> <text>"
	Accept     string      `json:"accept"`                // good | stale | other | mangled | missing | lower
	StaleBack  int         `json:"stale_back,omitempty"`  // stale: the Accept of the dial this many dials back (default 1)
	Upgrade    []string    `json:"upgrade"`               // header lines
	Connection []string    `json:"connection"`
	Extra      [][2]string `json:"extra,omitempty"`
	BodyLen    int         `json:"body_len,omitempty"`
	BodySent   int         `json:"body_sent,omitempty"` // >0: only this many body bytes are sent, then silence (Content-Length still says BodyLen)
	TruncAt    int         `json:"trunc_at,omitempty"` // >0: send only this many bytes of the reply, then close
	Raw        []byte      `json:"raw,omitempty"`      // free-form reply bytes (C07)
	CloseAfter bool        `json:"close_after,omitempty"`
	Ext        string      `json:"ext,omitempty"` // Sec-WebSocket-Extensions value
	Frames     int         `json:"frames,omitempty"`
}

type Backend struct {
	Kind string `json:"kind"` // upgrader | byz | silent (accepts and never answers)
	TLS  bool   `json:"tls,omitempty"`
	Cert string `json:"cert,omitempty"` // valid | otherhost | untrusted
	Reply Reply `json:"reply,omitempty"`
	Comp bool   `json:"comp,omitempty"`
	HsTimeoutMs int64 `json:"hs_timeout_ms,omitempty"`
	Server string `json:"server,omitempty"` // mini | nethttp (upgrader kind)
}

type ProxyCfg struct {
	Kind  string `json:"kind"`  // http | https | socks5
	Reply string `json:"reply"` // 200 | 403 | 407 | 407-noreason | 502-long | garbage | close | silent
	Cert  string `json:"cert,omitempty"`
	Raw   []byte `json:"raw,omitempty"` // free-form CONNECT reply (C07)
	SocksCode byte `json:"socks_code,omitempty"` // 0 success
}

// HSDial is one Dial call.
type HSDial struct {
	URL          string              `json:"url"`
	Header       map[string][]string `json:"header,omitempty"`
	Subprotocols []string            `json:"subprotocols,omitempty"`
	Comp         bool                `json:"comp,omitempty"`
	RBuf         int                 `json:"rbuf,omitempty"`
	WBuf         int                 `json:"wbuf,omitempty"`
	HsTimeoutMs  int64               `json:"hs_timeout_ms,omitempty"`
	CtxTimeoutMs int64               `json:"ctx_timeout_ms,omitempty"`
	ProxyURL     string              `json:"proxy_url,omitempty"`
	Hooks        string              `json:"hooks"` // subset of "dct": NetDial, NetDialContext, NetDialTLSContext
	Untrusting   bool                `json:"untrusting,omitempty"` // TLSClientConfig without the test CA
	Backend      Backend             `json:"backend"`
	Proxy        *ProxyCfg           `json:"proxy,omitempty"`
	IdleMs       int64               `json:"idle_ms,omitempty"` // after success: idle this long, then exchange a message
	SrvFaults    []OpFault           `json:"srv_faults,omitempty"`
}

type HSScn struct {
	Dials []HSDial `json:"dials"`
	ShortRand int `json:"short_rand,omitempty"` // >0: crypto/rand.Reader returns at most this many bytes per Read (legal for an io.Reader)
	SharedDialer bool `json:"shared_dialer,omitempty"` // all dials use one websocket.Dialer value and one tls.Config
	// server-side class: a byzantine client against a real Upgrader
	SrvReq    []byte    `json:"srv_req,omitempty"` // raw request bytes
	SrvFaults []OpFault `json:"srv_faults,omitempty"`
	Srv       *Backend  `json:"srv,omitempty"`
}

type HookCall struct {
	Hook    string
	Network string
	Addr    string
	Conn    *SimConn
	// state of the connection at the moment Dial returned
	RdAtReturn, WrAtReturn int64 // armed deadlines (ns since start; -1 = none)
	ClosedAtReturn         bool
	ClosedLater            bool // ten simulated seconds after a failed Dial returned
	HookNanos              int64 // simulated time spent inside the hook itself (connecting; TLS done by a NetDialTLSContext hook)
}

type ProxyLog struct {
	Connects   int
	Targets    []string
	Auth       []string // Proxy-Authorization values ("" if absent)
	FirstBytes []byte   // first bytes the client sent (before TLS unwrapping, for https proxies after it)
	RawFirst   []byte   // first raw bytes on the proxy's connection
	SocksTarget string
	SocksAuth  string
	TunnelFirst []byte // first bytes relayed to the backend
	SNI        string
}

type BackendLog struct {
	Accepted  int
	RawFirst  []byte // first raw bytes received on the accepted connection
	SNI       string
	Request   []byte // request head as received (inside TLS if any)
	Key       string
	HTTPParsed *http.Request
	Upgraded  bool
	UpgradeErr string
	SrvConn   *SimConn
	Echoed    int
	TLSErr    string
	RdAtReturn, WrAtReturn int64 // server side: deadlines armed when Upgrade returned a connection
	StateAtReturn          bool
	ClosedAtReturn         bool // server side: was the accepted connection closed at the moment Upgrade returned its error
	ClosedKnown            bool
}

// DialResult is what one Dial call produced.
type DialResult struct {
	Conn      *websocket.Conn
	Resp      *http.Response
	Err       error
	ErrClass  string
	ErrText   string
	Panic     string
	Start     int64
	End       int64
	Returned  bool
	Hooks     []HookCall
	Proxy     ProxyLog
	Backend   BackendLog
	BodyRead  []byte
	PostErr   string // result of the post-idle message exchange ("" ok)
	PostDone  bool
	StepStart uint64
	StepEnd   uint64
	RespBody  []byte
}

type HSRun struct {
	Dials []*DialResult
	Srv   *BackendLog
	SrvResp []byte
}

type hsRunner struct {
	sim  *Sim
	net  *Net
	scn  *Scenario
	run  *Run
	ca   *testCA
	res  []*DialResult
	keys []string
	backendCert []tls.Certificate
	proxyCert   []tls.Certificate
	staleBack   int
	shared      *websocket.Dialer
	curDial     int
	curTask     *Task
}

// shortReader returns at most max bytes per call, as an io.Reader may.
type shortReader struct {
	r   io.Reader
	max int
}

func (s *shortReader) Read(p []byte) (int, error) {
	if len(p) > s.max {
		p = p[:s.max]
	}
	return s.r.Read(p)
}

// ---------------------------------------------------------------------------
// Certificates (Ed25519, minted inside the bubble so validity is relative to the fake clock)
// ---------------------------------------------------------------------------

type testCA struct {
	cert *x509.Certificate
	key  ed25519.PrivateKey
	pool *x509.CertPool
}

func newCA(name string) *testCA {
	pub, priv, _ := ed25519.GenerateKey(rand.Reader)
	tmpl := &x509.Certificate{SerialNumber: big.NewInt(1), Subject: pkix.Name{CommonName: name},
		NotBefore: time.Now().Add(-time.Hour), NotAfter: time.Now().Add(1000 * time.Hour),
		IsCA: true, KeyUsage: x509.KeyUsageCertSign, BasicConstraintsValid: true}
	der, err := x509.CreateCertificate(rand.Reader, tmpl, tmpl, pub, priv)
	if err != nil {
		panic(err)
	}
	cert, _ := x509.ParseCertificate(der)
	pool := x509.NewCertPool()
	pool.AddCert(cert)
	return &testCA{cert: cert, key: priv, pool: pool}
}

func (ca *testCA) leaf(host string) tls.Certificate {
	pub, priv, _ := ed25519.GenerateKey(rand.Reader)
	tmpl := &x509.Certificate{SerialNumber: big.NewInt(2), Subject: pkix.Name{CommonName: host},
		NotBefore: time.Now().Add(-time.Hour), NotAfter: time.Now().Add(1000 * time.Hour),
		KeyUsage: x509.KeyUsageDigitalSignature, ExtKeyUsage: []x509.ExtKeyUsage{x509.ExtKeyUsageServerAuth}}
	if ip := net.ParseIP(strings.Trim(host, "[]")); ip != nil {
		tmpl.IPAddresses = []net.IP{ip}
	} else {
		tmpl.DNSNames = []string{host}
	}
	der, err := x509.CreateCertificate(rand.Reader, tmpl, ca.cert, pub, ca.key)
	if err != nil {
		panic(err)
	}
	return tls.Certificate{Certificate: [][]byte{der}, PrivateKey: priv}
}

// mint creates, on the root goroutine before any node runs, the certificate a
// node will present (crypto/rand is a deterministic stream shared by all
// goroutines: nodes must not draw from it concurrently with the client).
func (h *hsRunner) mint(kind, host string) tls.Certificate {
	if strings.HasPrefix(kind, "as:") {
		return h.ca.leaf(kind[3:]) // a trusted certificate, but for that other host
	}
	switch kind {
	case "otherhost":
		return h.ca.leaf("other.example")
	case "untrusted":
		return newCA("rogue CA").leaf(host)
	}
	return h.ca.leaf(host)
}

// serverTLS wraps c for a node that presents cert.
func (h *hsRunner) serverTLS(c net.Conn, cert tls.Certificate, sni *string) *tls.Conn {
	cfg := &tls.Config{Certificates: []tls.Certificate{cert}, GetConfigForClient: func(chi *tls.ClientHelloInfo) (*tls.Config, error) {
		*sni = chi.ServerName
		return nil, nil
	}}
	return tls.Server(c, cfg)
}

func hostOnly(hostport string) string {
	h, _, err := net.SplitHostPort(hostport)
	if err != nil {
		return hostport
	}
	return h
}

// ---------------------------------------------------------------------------
// Running the scenario
// ---------------------------------------------------------------------------

func runHS(s *Sim, scn *Scenario, run *Run) {
	h := &hsRunner{sim: s, scn: scn, run: run}
	h.net = s.NewNet(scn.Net)
	h.ca = newCA("wsim test CA")
	run.HS = &HSRun{}
	hs := scn.HS
	if hs.ShortRand > 0 {
		old := rand.Reader
		rand.Reader = &shortReader{r: old, max: hs.ShortRand}
		defer func() { rand.Reader = old }()
	}
	if hs.Srv != nil {
		h.runServerSide(hs)
	} else {
		for range hs.Dials {
			h.res = append(h.res, &DialResult{})
		}
		// nodes of every dial are registered up front (dial i uses addresses unique to it through its URL)
		for i := range hs.Dials {
			h.net.regNS = i
			h.registerNodes(i)
		}
		s.GoID(0, "dialer", func(t *Task) {
			for i := range hs.Dials {
				h.net.SetNS(i)
				h.dial(i, t)
				t.Yield()
			}
		})
	}
	run.Reason = s.Drive()
	run.Leaked = s.Teardown()
	run.HS.Dials = h.res
}

// backendAddr is the host:port the backend of dial i listens on.
func backendAddr(d *HSDial) string {
	u, err := url.Parse(d.URL)
	if err != nil {
		return "invalid:0"
	}
	hp := u.Host
	if i := strings.LastIndex(hp, ":"); i <= strings.LastIndex(hp, "]") {
		if u.Scheme == "wss" {
			hp += ":443"
		} else {
			hp += ":80"
		}
	}
	return hp
}

func proxyAddr(d *HSDial) string {
	u, err := url.Parse(d.ProxyURL)
	if err != nil || d.ProxyURL == "" {
		return ""
	}
	hp := u.Host
	if i := strings.LastIndex(hp, ":"); i <= strings.LastIndex(hp, "]") {
		switch u.Scheme {
		case "https":
			hp += ":443"
		case "socks5":
			hp += ":1080"
		default:
			hp += ":80"
		}
	}
	return hp
}

func (h *hsRunner) registerNodes(i int) {
	d := &h.scn.HS.Dials[i]
	res := h.res[i]
	baddr := backendAddr(d)
	var bc, pc tls.Certificate
	if d.Backend.TLS {
		bc = h.mint(d.Backend.Cert, hostOnly(baddr))
	}
	if d.Proxy != nil && d.Proxy.Kind == "https" {
		pc = h.mint(d.Proxy.Cert, hostOnly(proxyAddr(d)))
	}
	h.backendCert = append(h.backendCert, bc)
	h.proxyCert = append(h.proxyCert, pc)
	h.net.Handle(baddr, func(c *SimConn) { h.serveBackend(i, c, &res.Backend) })
	if d.Proxy != nil {
		h.net.Handle(proxyAddr(d), func(c *SimConn) { h.serveProxy(i, c) })
	}
}

func (h *hsRunner) clientTLSConfig(d *HSDial) *tls.Config {
	cfg := &tls.Config{}
	if !d.Untrusting {
		cfg.RootCAs = h.ca.pool
	} else {
		cfg.RootCAs = x509.NewCertPool()
	}
	return cfg
}

func (h *hsRunner) dial(i int, t *Task) {
	d := &h.scn.HS.Dials[i]
	h.curDial, h.curTask = i, t
	var dialer *websocket.Dialer
	if h.scn.HS.SharedDialer && h.shared != nil {
		dialer = h.shared
	} else {
		dialer = &websocket.Dialer{ReadBufferSize: d.RBuf, WriteBufferSize: d.WBuf, EnableCompression: d.Comp, Subprotocols: d.Subprotocols}
		h.configureDialer(dialer, d)
		if h.scn.HS.SharedDialer {
			h.shared = dialer
		}
	}
	h.dialWith(dialer, i, t)
}

// configureDialer installs hooks that always act for the dial in progress
// (so that one Dialer value can serve several dials).
func (h *hsRunner) configureDialer(dialer *websocket.Dialer, d *HSDial) {
	raw := func(hook, network, addr string) (net.Conn, error) {
		res := h.res[h.curDial]
		t0 := int64(h.sim.Now())
		c, err := h.net.Dial(h.curTask, addr)
		hc := HookCall{Hook: hook, Network: network, Addr: addr, HookNanos: int64(h.sim.Now()) - t0}
		if sc, ok := c.(*SimConn); ok {
			hc.Conn = sc
		}
		res.Hooks = append(res.Hooks, hc)
		return c, err
	}
	if strings.Contains(d.Hooks, "d") {
		dialer.NetDial = func(network, addr string) (net.Conn, error) { return raw("NetDial", network, addr) }
	}
	if strings.Contains(d.Hooks, "c") {
		dialer.NetDialContext = func(ctx context.Context, network, addr string) (net.Conn, error) {
			return raw("NetDialContext", network, addr)
		}
	}
	if strings.Contains(d.Hooks, "t") {
		dialer.NetDialTLSContext = func(ctx context.Context, network, addr string) (net.Conn, error) {
			c, err := raw("NetDialTLSContext", network, addr)
			if err != nil {
				return nil, err
			}
			// the hook is trusted to do TLS itself: it does, verifying against the test CA
			cfg := h.clientTLSConfig(&h.scn.HS.Dials[h.curDial])
			cfg.ServerName = hostOnly(addr)
			tc := tls.Client(c, cfg)
			t0 := int64(h.sim.Now())
			err = tc.HandshakeContext(ctx)
			if res := h.res[h.curDial]; len(res.Hooks) > 0 {
				res.Hooks[len(res.Hooks)-1].HookNanos += int64(h.sim.Now()) - t0
			}
			if err != nil {
				c.Close()
				return nil, err
			}
			return tc, nil
		}
	}
	dialer.TLSClientConfig = h.clientTLSConfig(d)
	dialer.Proxy = func(*http.Request) (*url.URL, error) {
		cur := &h.scn.HS.Dials[h.curDial]
		if cur.ProxyURL == "" {
			return nil, nil
		}
		return url.Parse(cur.ProxyURL)
	}
	if d.HsTimeoutMs > 0 {
		dialer.HandshakeTimeout = time.Duration(d.HsTimeoutMs) * time.Millisecond
	}
}

func (h *hsRunner) dialWith(dialer *websocket.Dialer, i int, t *Task) {
	d := &h.scn.HS.Dials[i]
	res := h.res[i]
	ctx := context.Background()
	if d.CtxTimeoutMs > 0 {
		var cancel func()
		ctx, cancel = context.WithTimeout(ctx, time.Duration(d.CtxTimeoutMs)*time.Millisecond)
		defer cancel()
	}
	res.Start = int64(h.sim.Now())
	res.StepStart = h.sim.Step()
	func() {
		defer func() {
			if p := recover(); p != nil {
				if _, ok := p.(abortRun); ok {
					panic(p)
				}
				res.Panic = fmt.Sprintf("%v\n%s", p, stackTrace())
			}
		}()
		res.Conn, res.Resp, res.Err = dialer.DialContext(ctx, d.URL, http.Header(d.Header))
	}()
	res.End = int64(h.sim.Now())
	res.StepEnd = h.sim.Step()
	for k := range res.Hooks {
		if c := res.Hooks[k].Conn; c != nil {
			rd, wr := c.Deadlines()
			res.Hooks[k].RdAtReturn, res.Hooks[k].WrAtReturn = relTime(h.sim, rd), relTime(h.sim, wr)
			res.Hooks[k].ClosedAtReturn = c.IsClosed()
		}
	}
	res.Returned = true
	res.ErrClass = classify(res.Err)
	if res.Err != nil {
		res.ErrText = res.Err.Error()
	}
	if res.Resp != nil && res.Resp.Body != nil {
		b, _ := io.ReadAll(io.LimitReader(res.Resp.Body, 1<<20))
		res.RespBody = b
	}
	if res.Conn != nil && d.IdleMs > 0 {
		t.Sleep(time.Duration(d.IdleMs) * time.Millisecond)
		msg := []byte("after the idle hour")
		err := res.Conn.WriteMessage(websocket.TextMessage, msg)
		if err == nil {
			var p []byte
			_, p, err = res.Conn.ReadMessage()
			if err == nil && !bytes.Equal(p, msg) {
				err = fmt.Errorf("echo mismatch")
			}
		}
		if err != nil {
			res.PostErr = err.Error()
		}
		res.PostDone = true
	}
	if res.Conn != nil {
		res.Conn.Close()
	} else {
		// crypto/tls closes a connection whose handshake context expired from a
		// goroutine of its own (context.AfterFunc); give such closers time to finish
		// (several rounds: when the clock also advances while operations are runnable, one round may
		// be all "starvation" of the goroutine that is about to close)
		for round := 0; round < 6; round++ {
			t.Sleep(10 * time.Second)
			open := false
			for k := range res.Hooks {
				if c := res.Hooks[k].Conn; c != nil {
					res.Hooks[k].ClosedLater = c.IsClosed()
					if !res.Hooks[k].ClosedAtReturn && !res.Hooks[k].ClosedLater {
						open = true
					}
				}
			}
			if !open {
				break
			}
		}
	}
}

// ---------------------------------------------------------------------------
// Backend node
// ---------------------------------------------------------------------------

type firstBytes struct {
	net.Conn
	buf *[]byte
}

func (f firstBytes) Read(p []byte) (int, error) {
	n, err := f.Conn.Read(p)
	if len(*f.buf) < 64 {
		*f.buf = append(*f.buf, p[:n]...)
	}
	return n, err
}

func (h *hsRunner) serveBackend(i int, sc *SimConn, log *BackendLog) {
	d := &h.scn.HS.Dials[i]
	b := &d.Backend
	log.Accepted++
	log.SrvConn = sc
	var c net.Conn = firstBytes{sc, &log.RawFirst}
	if b.TLS {
		tc := h.serverTLS(c, h.backendCert[i], &log.SNI)
		if err := tc.Handshake(); err != nil {
			log.TLSErr = err.Error()
			sc.Close()
			return
		}
		c = tc
	}
	switch b.Kind {
	case "silent":
		// accept and never answer; the connection stays open
		buf := make([]byte, 4096)
		for {
			n, err := c.Read(buf)
			log.Request = append(log.Request, buf[:n]...)
			if err != nil {
				return
			}
		}
	case "upgrader":
		br := bufio.NewReaderSize(c, 4096)
		req, err := http.ReadRequest(br)
		if err != nil {
			c.Close()
			return
		}
		log.HTTPParsed = req
		log.Key = req.Header.Get("Sec-Websocket-Key")
		w := &stubRW{conn: c, br: br, bw: bufio.NewWriterSize(c, 4096), hdr: http.Header{}}
		u := websocket.Upgrader{EnableCompression: b.Comp, CheckOrigin: func(*http.Request) bool { return true }}
		if b.HsTimeoutMs > 0 {
			u.HandshakeTimeout = time.Duration(b.HsTimeoutMs) * time.Millisecond
		}
		conn, err := u.Upgrade(w, req, nil)
		if err != nil {
			log.UpgradeErr = err.Error()
			if !w.hijacked {
				fmt.Fprintf(c, "HTTP/1.1 %d X\r\nContent-Length: 0\r\n\r\n", w.status)
				c.Close()
			}
			return
		}
		log.Upgraded = true
		for {
			mt, p, err := conn.ReadMessage()
			if err != nil {
				conn.Close()
				return
			}
			if conn.WriteMessage(mt, p) != nil {
				conn.Close()
				return
			}
			log.Echoed++
		}
	default: // byz
		head, _, err := readHead(c)
		log.Request = head
		if err != nil {
			c.Close()
			return
		}
		if req, err := http.ReadRequest(bufio.NewReader(bytes.NewReader(head))); err == nil {
			log.HTTPParsed = req
			log.Key = req.Header.Get("Sec-Websocket-Key")
		}
		h.keys = append(h.keys, log.Key)
		out := h.buildReply(&b.Reply, log.Key, i)
		if b.Reply.TruncAt > 0 && b.Reply.TruncAt < len(out) {
			out = out[:b.Reply.TruncAt]
		}
		c.Write(out)
		if b.Reply.TruncAt > 0 || b.Reply.CloseAfter {
			c.Close()
			return
		}
		// stay around: answer a text message with an echo if the client got that far
		sc.drainForever()
	}
}

// buildReply renders a byzantine reply. The harness knows exactly what it sent.
func (h *hsRunner) buildReply(r *Reply, key string, dialIdx int) []byte {
	if r.Raw != nil {
		return r.Raw
	}
	var b bytes.Buffer
	if r.StatusLine != "" {
		b.WriteString(r.StatusLine + "\r\n")
	} else {
		fmt.Fprintf(&b, "HTTP/1.1 %d %s\r\n", r.Status, http.StatusText(r.Status))
	}
	for _, v := range r.Upgrade {
		b.WriteString("Upgrade: " + v + "\r\n")
	}
	for _, v := range r.Connection {
		b.WriteString("Connection: " + v + "\r\n")
	}
	h.staleBack = r.StaleBack
	if a, ok := h.acceptValue(r.Accept, key, dialIdx); ok {
		b.WriteString("Sec-WebSocket-Accept: " + a + "\r\n")
	}
	if r.Ext != "" {
		b.WriteString("Sec-WebSocket-Extensions: " + r.Ext + "\r\n")
	}
	for _, kv := range r.Extra {
		b.WriteString(kv[0] + ": " + kv[1] + "\r\n")
	}
	if r.BodyLen > 0 || r.Status != 101 {
		fmt.Fprintf(&b, "Content-Length: %d\r\n", r.BodyLen)
	}
	b.WriteString("\r\n")
	n := r.BodyLen
	if r.BodySent > 0 && r.BodySent < n {
		n = r.BodySent
	}
	for i := 0; i < n; i++ {
		b.WriteByte(byte('a' + i%26))
	}
	return b.Bytes()
}

func (h *hsRunner) acceptValue(mode, key string, dialIdx int) (string, bool) {
	switch mode {
	case "missing":
		return "", false
	case "stale":
		// the Accept that was right for an earlier dial of this run
		back := h.staleBack
		if back <= 0 {
			back = 1
		}
		if len(h.keys) >= 1+back {
			return acceptKey(h.keys[len(h.keys)-1-back]), true
		}
		return acceptKey("dGhlIHNhbXBsZSBub25jZQ=="), true
	case "other":
		return acceptKey(base64.StdEncoding.EncodeToString([]byte("0123456789abcdef"))), true
	case "mangled":
		a := []byte(acceptKey(key))
		a[len(a)/2] ^= 1
		return string(a), true
	case "lower":
		return strings.ToLower(acceptKey(key)), true
	case "space":
		return acceptKey(key) + " x", true
	}
	return acceptKey(key), true
}

// ---------------------------------------------------------------------------
// Proxy nodes
// ---------------------------------------------------------------------------

func (h *hsRunner) serveProxy(i int, sc *SimConn) {
	d := &h.scn.HS.Dials[i]
	p := d.Proxy
	log := &h.res[i].Proxy
	var c net.Conn = firstBytes{sc, &log.RawFirst}
	if p.Kind == "https" {
		tc := h.serverTLS(c, h.proxyCert[i], &log.SNI)
		if err := tc.Handshake(); err != nil {
			sc.Close()
			return
		}
		c = tc
	}
	if p.Kind == "socks5" {
		h.serveSocks(i, c, sc, log)
		return
	}
	ht := &headTee{r: c}
	br := bufio.NewReader(ht)
	req, err := http.ReadRequest(br)
	ht.stop = true
	if err != nil {
		log.FirstBytes = append(log.FirstBytes, log.RawFirst...)
		c.Close()
		return
	}
	log.Connects++
	// net/http replaces Request.Host by the authority of a CONNECT target; the Host header field
	// as the client wrote it is taken from the raw head
	log.Targets = append(log.Targets, req.Method+" "+req.RequestURI+" host="+rawHostField(ht.head, req.Host))
	log.Auth = append(log.Auth, req.Header.Get("Proxy-Authorization"))
	switch p.Reply {
	case "200":
		c.Write([]byte("HTTP/1.1 200 Connection established\r\n\r\n"))
	case "201", "202", "204", "299":
		// not 200: the client must abort; the stub nevertheless opens the tunnel, so a client
		// that carries on shows up at the backend
		c.Write([]byte("HTTP/1.1 " + p.Reply + " Whatever\r\n\r\n"))
	case "403":
		c.Write([]byte("HTTP/1.1 403 Forbidden\r\nContent-Length: 0\r\n\r\n"))
		c.Close()
		return
	case "407":
		c.Write([]byte("HTTP/1.1 407 Proxy Authentication Required\r\nProxy-Authenticate: Basic\r\nContent-Length: 0\r\n\r\n"))
		c.Close()
		return
	case "407-noreason":
		c.Write([]byte("HTTP/1.1 407\r\nContent-Length: 0\r\n\r\n"))
		c.Close()
		return
	case "502-long":
		c.Write([]byte("HTTP/1.1 502 Bad Gateway\r\nContent-Length: 5000\r\n\r\n" + strings.Repeat("x", 5000)))
		c.Close()
		return
	case "garbage":
		c.Write([]byte("\x00\x01garbage that is not HTTP\r\n\r\n"))
		c.Close()
		return
	case "raw":
		c.Write(p.Raw)
		if len(p.Raw)%2 == 0 {
			c.Close() // half of the replies are followed by EOF, the others by silence (the handshake time-out must end those)
		}
		return
	case "close":
		c.Close()
		return
	case "silent":
		return
	}
	h.tunnel(c, br, req.RequestURI, log)
}

// headTee keeps a copy of the request head as it came off the connection.
type headTee struct {
	r    io.Reader
	head []byte
	stop bool
}

func (t *headTee) Read(p []byte) (int, error) {
	n, err := t.r.Read(p)
	if !t.stop && len(t.head) < 1<<16 {
		t.head = append(t.head, p[:n]...)
	}
	return n, err
}

// rawHostField returns the value of the first Host header field of a raw
// request head (def if there is none).
func rawHostField(head []byte, def string) string {
	if i := bytes.Index(head, []byte("\r\n\r\n")); i >= 0 {
		head = head[:i]
	}
	for k, line := range strings.Split(string(head), "\r\n") {
		if k == 0 {
			continue
		}
		if i := strings.IndexByte(line, ':'); i > 0 && strings.EqualFold(strings.TrimSpace(line[:i]), "Host") {
			return strings.TrimSpace(line[i+1:])
		}
	}
	return def
}

// tunnel relays bytes between the client and the target node.
func (h *hsRunner) tunnel(c net.Conn, br *bufio.Reader, target string, log *ProxyLog) {
	up, err := h.net.Dial(nil, target)
	if err != nil {
		c.Close()
		return
	}
	go func() {
		buf := make([]byte, 4096)
		for {
			n, err := up.Read(buf)
			if n > 0 {
				if _, werr := c.Write(buf[:n]); werr != nil {
					up.Close()
					return
				}
			}
			if err != nil {
				c.Close()
				return
			}
		}
	}()
	buf := make([]byte, 4096)
	for {
		var n int
		var err error
		if br != nil {
			n, err = br.Read(buf)
		} else {
			n, err = c.Read(buf)
		}
		if n > 0 {
			if len(log.TunnelFirst) < 64 {
				log.TunnelFirst = append(log.TunnelFirst, buf[:n]...)
			}
			if _, werr := up.Write(buf[:n]); werr != nil {
				c.Close()
				return
			}
		}
		if err != nil {
			up.Close()
			return
		}
	}
}

func (h *hsRunner) serveSocks(i int, c net.Conn, sc *SimConn, log *ProxyLog) {
	d := &h.scn.HS.Dials[i]
	p := d.Proxy
	hdr := make([]byte, 2)
	if _, err := io.ReadFull(c, hdr); err != nil || hdr[0] != 5 {
		c.Close()
		return
	}
	methods := make([]byte, hdr[1])
	if _, err := io.ReadFull(c, methods); err != nil {
		c.Close()
		return
	}
	wantAuth := bytes.IndexByte(methods, 2) >= 0
	if wantAuth {
		c.Write([]byte{5, 2})
		ah := make([]byte, 2)
		io.ReadFull(c, ah)
		u := make([]byte, ah[1])
		io.ReadFull(c, u)
		pl := make([]byte, 1)
		io.ReadFull(c, pl)
		pw := make([]byte, pl[0])
		io.ReadFull(c, pw)
		log.SocksAuth = string(u) + ":" + string(pw)
		c.Write([]byte{1, 0})
	} else {
		c.Write([]byte{5, 0})
	}
	rq := make([]byte, 4)
	if _, err := io.ReadFull(c, rq); err != nil {
		c.Close()
		return
	}
	var host string
	switch rq[3] {
	case 1:
		a := make([]byte, 4)
		io.ReadFull(c, a)
		host = net.IP(a).String()
	case 4:
		a := make([]byte, 16)
		io.ReadFull(c, a)
		host = "[" + net.IP(a).String() + "]"
	case 3:
		l := make([]byte, 1)
		io.ReadFull(c, l)
		a := make([]byte, l[0])
		io.ReadFull(c, a)
		host = string(a)
	}
	pt := make([]byte, 2)
	io.ReadFull(c, pt)
	target := fmt.Sprintf("%s:%d", host, int(pt[0])<<8|int(pt[1]))
	log.Connects++
	log.SocksTarget = target
	log.Targets = append(log.Targets, "SOCKS5 "+target)
	if p.Reply == "silent" {
		return
	}
	if p.SocksCode != 0 {
		c.Write([]byte{5, p.SocksCode, 0, 1, 0, 0, 0, 0, 0, 0})
		c.Close()
		return
	}
	c.Write([]byte{5, 0, 0, 1, 0, 0, 0, 0, 0, 0})
	h.tunnel(c, nil, target, log)
}

// ---------------------------------------------------------------------------
// Server-side class: a byzantine client against a real Upgrader
// ---------------------------------------------------------------------------

func (h *hsRunner) runServerSide(hs *HSScn) {
	log := &BackendLog{}
	h.run.HS.Srv = log
	addr := "srv.test:80"
	if hs.Srv.Server == "nethttp" {
		lis := h.net.Listen(addr)
		srv := &http.Server{Handler: http.HandlerFunc(func(w http.ResponseWriter, r *http.Request) { h.upgradeSrv(hs, w, r, log) })}
		go srv.Serve(lis)
	} else {
		h.net.Handle(addr, func(c *SimConn) {
			log.SrvConn = c
			br := bufio.NewReaderSize(c, 4096)
			req, err := http.ReadRequest(br)
			if err != nil {
				log.UpgradeErr = "bad request: " + err.Error()
				c.Close()
				return
			}
			w := &stubRW{conn: c, br: br, bw: bufio.NewWriterSize(c, 4096), hdr: http.Header{}}
			h.upgradeSrv(hs, w, req, log)
			if !w.hijacked {
				st := w.status
				if st == 0 {
					st = 200
				}
				var b bytes.Buffer
				fmt.Fprintf(&b, "HTTP/1.1 %d %s\r\n", st, http.StatusText(st))
				w.hdr.Set("Content-Length", fmt.Sprint(w.body.Len()))
				w.hdr.Write(&b)
				b.WriteString("\r\n")
				b.Write(w.body.Bytes())
				c.Write(b.Bytes())
				c.Close()
			}
		})
	}
	h.sim.GoID(0, "byzclient", func(t *Task) {
		c, err := h.net.Dial(t, addr)
		if err != nil {
			return
		}
		c.Write(hs.SrvReq)
		buf := make([]byte, 4096)
		for {
			n, err := c.Read(buf)
			h.run.HS.SrvResp = append(h.run.HS.SrvResp, buf[:n]...)
			if err != nil || len(h.run.HS.SrvResp) > 1<<16 {
				break
			}
			if bytes.Contains(h.run.HS.SrvResp, []byte("\r\n\r\n")) {
				break
			}
		}
		c.Close()
	})
}

func (h *hsRunner) upgradeSrv(hs *HSScn, w http.ResponseWriter, r *http.Request, log *BackendLog) {
	log.HTTPParsed = r
	log.Accepted++
	u := websocket.Upgrader{EnableCompression: hs.Srv.Comp, Subprotocols: []string{"chat", "v2"}}
	if hs.Srv.HsTimeoutMs > 0 {
		u.HandshakeTimeout = time.Duration(hs.Srv.HsTimeoutMs) * time.Millisecond
	}
	func() {
		defer func() {
			if p := recover(); p != nil {
				log.UpgradeErr = fmt.Sprintf("PANIC: %v\n%s", p, stackTrace())
			}
		}()
		_ = websocket.IsWebSocketUpgrade(r)
		_ = websocket.Subprotocols(r)
		conn, err := u.Upgrade(w, r, nil)
		if err != nil {
			log.UpgradeErr = err.Error()
			// the accepting end of the first connection pair is the server's transport (teardown closes
			// every connection later, so the state has to be sampled now)
			if sc := h.sim.acceptedConn(); sc != nil {
				log.ClosedAtReturn, log.ClosedKnown = sc.IsClosed(), true
			}
			return
		}
		log.Upgraded = true
		log.SrvConn = underlyingSim(conn.NetConn())
		if log.SrvConn != nil {
			rd, wr := log.SrvConn.Deadlines()
			log.RdAtReturn, log.WrAtReturn, log.StateAtReturn = relTime(h.sim, rd), relTime(h.sim, wr), true
		}
		conn.Close()
	}()
}

func shrinkHS(s *Scenario) []*Scenario {
	var out []*Scenario
	hs := s.HS
	if len(hs.Dials) > 1 {
		c := cloneScenario(s)
		c.HS.Dials = c.HS.Dials[1:]
		out = append(out, c)
		c = cloneScenario(s)
		c.HS.Dials = c.HS.Dials[:len(c.HS.Dials)-1]
		out = append(out, c)
	}
	for i := range hs.Dials {
		if hs.Dials[i].Backend.Reply.BodyLen > 0 {
			c := cloneScenario(s)
			c.HS.Dials[i].Backend.Reply.BodyLen /= 2
			out = append(out, c)
		}
		if hs.Dials[i].IdleMs > 0 {
			c := cloneScenario(s)
			c.HS.Dials[i].IdleMs = 0
			out = append(out, c)
		}
	}
	return out
}
