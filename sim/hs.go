package wsim

// Handshake family (D): filled in by hs_*.go.
type HSScn struct {
	Kind string `json:"kind"`
}

type HSRun struct{}

func runHS(s *Sim, scn *Scenario, run *Run) {}

func shrinkHS(s *Scenario) []*Scenario { return nil }
