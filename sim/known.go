package wsim

import (
	"encoding/json"
	"os"
)

// Known findings (committed file, never written at run time).
type KnownEntry struct {
	Property  string `json:"property"`
	Signature string `json:"signature"`
	Status    string `json:"status"` // known | fixed
	Commit    string `json:"commit,omitempty"`
	What      string `json:"what"`
}

type KnownFile struct {
	Findings []KnownEntry `json:"findings"`
}

func loadKnown(path string) *KnownFile {
	k := &KnownFile{}
	if path == "" {
		return k
	}
	b, err := os.ReadFile(path)
	if err != nil {
		return k
	}
	_ = json.Unmarshal(b, k)
	return k
}

// match: only entries with status "known" suppress; "fixed" entries suppress nothing.
func (k *KnownFile) match(prop, sig string) (string, bool) {
	for _, e := range k.Findings {
		if e.Status == "known" && e.Property == prop && e.Signature == sig {
			return e.What, true
		}
	}
	return "", false
}
