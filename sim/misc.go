package wsim

import (
	"crypto/rand"
	"errors"
	"io"
	"net"
	"sync"

	"github.com/gorilla/websocket"
)

// Reach probes: counters incremented from observable facts.
const (
	pServerDirectWrite = iota
	pPassThroughRead
	pControlBetweenFragments
	pEmptyFragment
	pCtl125
	pLen16
	pLen64
	pAbandoned
	pCloseWhileWriterOpen
	pLockTimeout
	pWriterStalled
	pEOFWithBytes
	pCutInHeader
	pShortWrite
	pHijackBuffered
	pBrNetConn
	pHijackReuse
	pPreparedContended
	pPoolMigrated
	pCompressedMsg
	pImplicitClose
	pWriteBlockedOnLock
	pCloseRace
	pReplayedAccept
	pTLS
	pProxyConnect
	pSocks
	numProbes
)

var probeNames = [...]string{"server-direct-write", "bufio-pass-through-read", "control-between-fragments",
	"empty-fragment", "ctl-payload-125", "len16-header", "len64-header", "abandoned-message",
	"close-while-writer-open", "lock-timeout", "writer-stalled-in-transport", "eof-with-bytes",
	"cut-in-header", "short-write", "hijack-buffered-bytes", "brnetconn-path", "hijacked-reader-reused",
	"prepared-first-render-contended", "pool-buffer-migrated", "compressed-message", "implicit-close",
	"write-blocked-on-lock", "close-raced-with-writer", "replayed-accept", "tls-handshake", "proxy-connect", "socks5"}

//go:norace
func (s *Sim) Probe(i int) {
	s.lock()
	s.stats.Probes[i]++
	s.unlock()
}

// classify maps an error to a class name using exported identities only.
func classify(err error) string {
	if err == nil {
		return ""
	}
	switch {
	case err == websocket.ErrCloseSent:
		return "ErrCloseSent"
	case err == websocket.ErrReadLimit:
		return "ErrReadLimit"
	case err == websocket.ErrBadHandshake:
		return "ErrBadHandshake"
	case err == io.EOF:
		return "EOF"
	case err == io.ErrUnexpectedEOF:
		return "ErrUnexpectedEOF"
	}
	var ce *websocket.CloseError
	if errors.As(err, &ce) {
		return "CloseError:" + itoa(ce.Code)
	}
	if _, ok := err.(websocket.HandshakeError); ok {
		return "HandshakeError"
	}
	var ne net.Error
	if errors.As(err, &ne) && ne.Timeout() {
		return "timeout"
	}
	if errors.Is(err, net.ErrClosed) {
		return "closed"
	}
	return "other"
}

// ---------------------------------------------------------------------------
// Mask key source (installed through the verif hook).
// ---------------------------------------------------------------------------

const maxMaskKeys = 1 << 16

type maskSource struct {
	mu     sync.Mutex
	state  uint64
	issued [maxMaskKeys][4]byte
	n      int
	ovf    bool
	odd    int // reads that were not exactly 4 bytes
}

var (
	theMask      = &maskSource{}
	origMaskRand io.Reader
	maskInstall  sync.Once
)

// installMaskSource swaps the library's mask-key reader for the simulator's.
// The first swap must hand back crypto/rand.Reader.
func installMaskSource() {
	maskInstall.Do(func() {
		origMaskRand = websocket.VerifSwapMaskRand(theMask)
	})
}

func maskDefaultIsCryptoRand() bool { return origMaskRand == rand.Reader }

//go:norace
func (m *maskSource) reset(seed uint64) {
	raceDisable()
	m.mu.Lock()
	m.state = seed
	m.n = 0
	m.ovf = false
	m.odd = 0
	m.mu.Unlock()
	raceEnable()
}

// Read hands out key words. Some words are forced to the interesting values
// 00000000 / ffffffff-like patterns rarely; every word is logged.
//
//go:norace
func (m *maskSource) Read(p []byte) (int, error) {
	raceDisable()
	m.mu.Lock()
	var k [4]byte
	v := splitmix(&m.state)
	k[0], k[1], k[2], k[3] = byte(v), byte(v>>8), byte(v>>16), byte(v>>24)
	if len(p) != 4 {
		m.odd++
	} else if m.n < maxMaskKeys {
		m.issued[m.n] = k
		m.n++
	} else {
		m.ovf = true
	}
	m.mu.Unlock()
	raceEnable()
	return maskCopy(p, k)
}

// maskCopy writes into the library's buffer in instrumented code.
func maskCopy(p []byte, k [4]byte) (int, error) {
	n := copy(p, k[:])
	for n < len(p) {
		n += copy(p[n:], k[:])
	}
	return len(p), nil
}

//go:norace
func (m *maskSource) keys() [][4]byte {
	out := make([][4]byte, m.n)
	copy(out, m.issued[:m.n])
	return out
}
