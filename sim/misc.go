package wsim

import (
	"crypto/rand"
	"errors"
	"io"
	"net"
	"sync"

	"github.com/gorilla/websocket"
)

// Reach probes: counters incremented from observable facts.
const (
	pServerDirectWrite = iota
	pPassThroughRead
	pControlBetweenFragments
	pEmptyFragment
	pCtl125
	pLen16
	pLen64
	pAbandoned
	pCloseWhileWriterOpen
	pLockTimeout
	pWriterStalled
	pEOFWithBytes
	pCutInHeader
	pShortWrite
	pHijackBuffered
	pBrNetConn
	pHijackReuse
	pPreparedContended
	pPoolMigrated
	pCompressedMsg
	pImplicitClose
	pWriteBlockedOnLock
	pCloseRace
	pReplayedAccept
	pTLS
	pProxyConnect
	pSocks
	numProbes
)

var probeNames = [...]string{"server-direct-write", "bufio-pass-through-read", "control-between-fragments",
	"empty-fragment", "ctl-payload-125", "len16-header", "len64-header", "abandoned-message",
	"close-while-writer-open", "lock-timeout", "writer-stalled-in-transport", "eof-with-bytes",
	"cut-in-header", "short-write", "hijack-buffered-bytes", "brnetconn-path", "hijacked-reader-reused",
	"prepared-first-render-contended", "pool-buffer-migrated", "compressed-message", "implicit-close",
	"write-blocked-on-lock", "close-raced-with-writer", "replayed-accept", "tls-handshake", "proxy-connect", "socks5"}

//go:norace
func (s *Sim) Probe(i int) {
	s.lock()
	s.stats.Probes[i]++
	s.unlock()
}

// classify maps an error to a class name using exported identities only.
func classify(err error) string {
	if err == nil {
		return ""
	}
	switch {
	case errors.Is(err, websocket.ErrCloseSent):
		return "ErrCloseSent"
	case errors.Is(err, websocket.ErrReadLimit):
		return "ErrReadLimit"
	case errors.Is(err, websocket.ErrBadHandshake):
		return "ErrBadHandshake"
	case err == io.EOF:
		return "EOF"
	case err == io.ErrUnexpectedEOF:
		return "ErrUnexpectedEOF"
	}
	var ce *websocket.CloseError
	if errors.As(err, &ce) {
		return "CloseError:" + itoa(ce.Code)
	}
	if _, ok := err.(websocket.HandshakeError); ok {
		return "HandshakeError"
	}
	var ne net.Error
	if errors.As(err, &ne) && ne.Timeout() {
		return "timeout"
	}
	if errors.Is(err, net.ErrClosed) {
		return "closed"
	}
	return "other"
}

// ---------------------------------------------------------------------------
// Mask key source (installed through the verif hook).
// ---------------------------------------------------------------------------

const maxMaskBytes = 1 << 18

type maskSource struct {
	mu     sync.Mutex
	state  uint64
	issued [maxMaskBytes]byte // every byte handed out in this run, in order
	n      int
	ovf    bool
	reads  int
}

var (
	theMask      = &maskSource{}
	origMaskRand io.Reader
	maskInstall  sync.Once
)

// installMaskSource swaps the library's mask-key reader for the simulator's.
// The first swap must hand back crypto/rand.Reader.
func installMaskSource() {
	maskInstall.Do(func() {
		origMaskRand = websocket.VerifSwapMaskRand(theMask)
	})
}

func maskDefaultIsCryptoRand() bool { return origMaskRand == rand.Reader }

//go:norace
func (m *maskSource) reset(seed uint64) {
	raceDisable()
	m.mu.Lock()
	m.state = seed
	m.n = 0
	m.ovf = false
	m.reads = 0
	m.mu.Unlock()
	raceEnable()
}

// Read hands out pseudo-random bytes (any length: a library may fetch several
// keys at once) and logs every byte.
//
//go:norace
func (m *maskSource) Read(p []byte) (int, error) {
	raceDisable()
	m.mu.Lock()
	var tmp [64]byte
	need := len(p)
	m.reads++
	m.mu.Unlock()
	raceEnable()
	off := 0
	for need > 0 {
		k := need
		if k > len(tmp) {
			k = len(tmp)
		}
		m.fill(tmp[:k])
		maskCopy(p[off:off+k], tmp[:k])
		off += k
		need -= k
	}
	return len(p), nil
}

//go:norace
func (m *maskSource) fill(b []byte) {
	raceDisable()
	m.mu.Lock()
	for i := 0; i < len(b); i += 8 {
		v := splitmix(&m.state)
		for j := 0; j < 8 && i+j < len(b); j++ {
			b[i+j] = byte(v >> (8 * j))
		}
	}
	if m.n+len(b) <= maxMaskBytes {
		copy(m.issued[m.n:], b)
		m.n += len(b)
	} else {
		m.ovf = true
	}
	m.mu.Unlock()
	raceEnable()
}

// maskCopy writes into the library's buffer in instrumented code.
func maskCopy(p []byte, k []byte) { copy(p, k) }

//go:norace
func (m *maskSource) stream() []byte {
	out := make([]byte, m.n)
	copy(out, m.issued[:m.n])
	return out
}
