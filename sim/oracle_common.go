package wsim

import (
	"bytes"
	"fmt"
	"strings"

	"wsim/wsframe"
)

// ---------------------------------------------------------------------------
// Shared oracle helpers
// ---------------------------------------------------------------------------

// Msg is an API-level message (sent log / expected delivery).
type Msg struct {
	MT      int
	Payload []byte
	Partial bool // only part of the message is (ever) on the wire: it must not be reported complete
	Opaque  bool // the bytes of a partial message are not known to the oracle (compressed or cut inside a frame)
	Note    string
	Rec     *OpRec
}

// Obs is one thing a read program observed.
type Obs struct {
	Kind      string // msg | err | join
	MT        int
	Data      []byte
	Complete  bool // the program saw the end of the message
	Abandoned bool
	JSON      bool
	Err       string
	ErrText   string
	ErrVal    error
	Rec       *OpRec
	FromNext  bool // error came from NextReader (mt == -1)
}

func findTask(e *RealEnd, kind string) *Task {
	for _, t := range e.Tasks {
		if len(t.Name) > 0 && bytes.Contains([]byte(t.Name), []byte("-"+kind)) {
			return t
		}
	}
	return nil
}

func tasksOf(e *RealEnd, kind string) []*Task {
	var out []*Task
	for _, t := range e.Tasks {
		if bytes.Contains([]byte(t.Name), []byte("-"+kind)) {
			out = append(out, t)
		}
	}
	return out
}

// observations turns a reader task's history into the sequence of things it
// saw. Extra NextReader calls after the first error are returned separately.
func observations(t *Task) (obs []Obs, extras []*OpRec) {
	if t == nil {
		return
	}
	h := t.Hist
	for i := 0; i < len(h); i++ {
		r := h[i]
		switch r.Op {
		case "ReadMessage":
			if r.Err == "" {
				obs = append(obs, Obs{Kind: "msg", MT: r.MsgType, Data: r.Data, Complete: true, Rec: r})
			} else if r.MsgType == -1 {
				obs = append(obs, Obs{Kind: "err", Err: r.Err, ErrText: r.ErrText, ErrVal: r.errVal, Rec: r, FromNext: true})
			} else {
				// NextReader succeeded, the body failed
				obs = append(obs, Obs{Kind: "msg", MT: r.MsgType, Data: r.Data, Complete: false, Err: r.Err, ErrText: r.ErrText, ErrVal: r.errVal, Rec: r})
			}
		case "ReadJSON":
			if r.Err == "" {
				obs = append(obs, Obs{Kind: "msg", MT: 1, Data: r.Data, Complete: true, JSON: true, Rec: r})
			} else {
				obs = append(obs, Obs{Kind: "jsonerr", Err: r.Err, ErrText: r.ErrText, ErrVal: r.errVal, Rec: r})
			}
		case "Join":
			obs = append(obs, Obs{Kind: "join", Data: r.Data, Err: r.Err, ErrText: r.ErrText, ErrVal: r.errVal, Rec: r})
		case "NextReader":
			if r.Note == "extra" || r.Note == "extra reader-non-nil" {
				extras = append(extras, r)
				continue
			}
			if r.Err != "" {
				obs = append(obs, Obs{Kind: "err", Err: r.Err, ErrText: r.ErrText, ErrVal: r.errVal, Rec: r, FromNext: true})
				continue
			}
			// body follows
			if i+1 < len(h) && h[i+1].Op == "ReadBody" {
				b := h[i+1]
				i++
				o := Obs{Kind: "msg", MT: r.MsgType, Data: b.Data, Rec: b}
				switch {
				case b.Note == "abandoned":
					o.Abandoned = true
				case b.Err == "EOF":
					o.Complete = true
				default:
					o.Err, o.ErrText, o.ErrVal = b.Err, b.ErrText, b.errVal
				}
				obs = append(obs, o)
			} else {
				obs = append(obs, Obs{Kind: "msg", MT: r.MsgType, Abandoned: true, Rec: r})
			}
		}
	}
	return
}

func short(b []byte) string {
	if len(b) <= 24 {
		return fmt.Sprintf("%x", b)
	}
	return fmt.Sprintf("%x…(%d bytes)", b[:24], len(b))
}

func firstDiff(a, b []byte) int {
	n := len(a)
	if len(b) < n {
		n = len(b)
	}
	for i := 0; i < n; i++ {
		if a[i] != b[i] {
			return i
		}
	}
	if len(a) != len(b) {
		return n
	}
	return -1
}

// checkDelivery compares what a reader observed with the messages that were
// on the wire for it, in order. It returns the number of expected messages
// that were matched by complete observations and the index of the first
// observation that is an error (or len(obs)).
//
// mustAll: every expected message has to be observed (complete or abandoned)
// before the first error.
func checkDelivery(run *Run, prop, who string, want []Msg, obs []Obs, term string) (matched int, errAt int) {
	k := 0
	errAt = len(obs)
	for i, o := range obs {
		switch o.Kind {
		case "err", "jsonerr":
			errAt = i
			return k, errAt
		case "join":
			var exp []byte
			kk := k
			partialTail := false
			for ; kk < len(want); kk++ {
				if want[kk].Partial {
					partialTail = true // bytes of an unfinished message may follow; they are not known here
					break
				}
				exp = append(exp, want[kk].Payload...)
				exp = append(exp, term...)
			}
			if !bytes.HasPrefix(exp, o.Data) && !(partialTail && bytes.HasPrefix(o.Data, exp)) {
				d := firstDiff(exp, o.Data)
				run.fail(prop, "join-mismatch", "join", "%s: JoinMessages stream differs from the concatenated messages at byte %d (got %d bytes, want prefix of %d)", who, d, len(o.Data), len(exp))
			}
			// count messages wholly contained
			n := 0
			for kk = k; kk < len(want) && !want[kk].Partial; kk++ {
				n += len(want[kk].Payload) + len(term)
				if n <= len(o.Data) {
					k++
				}
			}
			errAt = i
			return k, errAt
		}
		if k >= len(want) {
			run.fail(prop, "extra-message", "extra", "%s: read API delivered a message (type %d, %s) that was never sent (after %d messages)", who, o.MT, short(o.Data), k)
			return k, errAt
		}
		w := want[k]
		if !o.JSON && o.MT != w.MT {
			run.fail(prop, "wrong-type", "type", "%s: message %d delivered with type %d, sent as %d", who, k, o.MT, w.MT)
		}
		exp := w.Payload
		if o.JSON {
			// WriteJSON terminates the document with a newline; the decoded
			// value is compared in canonical (re-marshalled) form
			exp = bytes.TrimRight(w.Payload, "\n")
		}
		switch {
		case w.Partial && o.Complete && o.JSON:
			// a JSON document is complete as soon as its value is; ReadJSON does not need the end of the message
			k++
		case w.Partial && o.Complete:
			run.fail(prop, "partial-reported-complete", obsKind(o), "%s: message %d never finished on the wire (%d bytes of it were sent) but the read API reported it complete with %d bytes", who, k, len(exp), len(o.Data))
			k++
		case o.Complete:
			if !bytes.Equal(o.Data, exp) {
				d := firstDiff(o.Data, exp)
				rule := "payload-mismatch"
				if len(o.Data) < len(exp) && bytes.HasPrefix(exp, o.Data) {
					rule = "truncated-reported-complete"
				}
				run.fail(prop, rule, fmt.Sprintf("%s", obsKind(o)), "%s: message %d reported complete with %d bytes, sent %d bytes; first difference at %d (got %s)", who, k, len(o.Data), len(exp), d, short(o.Data))
			}
			k++
			matched = k
		case o.Abandoned:
			if !w.Opaque && !bytes.HasPrefix(exp, o.Data) {
				run.fail(prop, "payload-mismatch", "abandoned-prefix", "%s: message %d: bytes read before abandoning are not a prefix of what was sent (diff at %d)", who, k, firstDiff(o.Data, exp))
			}
			k++
			matched = k
		default:
			// body error: data so far must still be a prefix
			if !w.Opaque && !bytes.HasPrefix(exp, o.Data) {
				run.fail(prop, "payload-mismatch", "error-prefix", "%s: message %d: bytes read before the error are not a prefix of what was sent (diff at %d)", who, k, firstDiff(o.Data, exp))
			}
			errAt = i
			return k, errAt
		}
	}
	return k, errAt
}

func obsKind(o Obs) string {
	if o.Rec != nil {
		return o.Rec.Op
	}
	return "?"
}

// sentLog extracts the API-level messages a writer task completed, in call
// order. ok=false entries (failed ops) are returned in failed.
func sentLog(t *Task) (sent []Msg, failed []Msg, ctl []Msg) {
	if t == nil {
		return
	}
	for i, r := range t.Hist {
		switch r.Op {
		case "WriteMessage", "WriteJSON", "WritePreparedMessage", "Message":
			m := Msg{MT: r.MsgType, Payload: r.Data, Note: r.Note, Rec: r}
			if r.Op == "Message" && r.Err == "" && strings.Contains(r.Note, "implicit") {
				// the writer is closed by the next message op, which swallows the
				// result of that flush; the application learns of a failure from
				// that op's own result
				ok := false
				for _, nx := range t.Hist[i+1:] {
					if nx.Op == "WriteMessage" || nx.Op == "NextWriter" || nx.Op == "WriteJSON" {
						ok = nx.Err == "" || !nx.failedAtOpen()
						break
					}
				}
				if !ok {
					failed = append(failed, m)
					continue
				}
			}
			if r.MsgType >= 8 {
				if r.Err == "" {
					ctl = append(ctl, m)
				} else {
					failed = append(failed, m)
				}
				continue
			}
			if r.Err == "" {
				sent = append(sent, m)
			} else {
				failed = append(failed, m)
			}
		case "WriteControl":
			m := Msg{MT: r.MsgType, Payload: r.Data, Rec: r}
			if r.Err == "" {
				ctl = append(ctl, m)
			} else {
				failed = append(failed, m)
			}
		}
	}
	return
}

// decodeTap runs the independent decoder over what a connection wrote after
// its handshake bytes.
type TapView struct {
	Raw    []byte
	Frames []wsframe.Frame
	Tail   int // offset of an incomplete trailing frame
	Items  []wsframe.Item
	Open   *wsframe.Item
	V      *wsframe.Violation
}

func decodeTap(raw []byte, masked, compression bool) *TapView {
	tv := &TapView{Raw: raw}
	tv.Frames, tv.Tail, tv.V = wsframe.Parse(raw, wsframe.Expect{Masked: masked, Compression: compression})
	if tv.V == nil {
		tv.Items, tv.Open, tv.V = wsframe.Assemble(tv.Frames)
	}
	return tv
}

// wsTap returns the bytes a real end wrote after its handshake head.
func wsTap(e *RealEnd) []byte {
	if e.Net == nil {
		return nil
	}
	raw := e.Net.Tap()
	i := bytes.Index(raw, []byte("\r\n\r\n"))
	if i < 0 {
		return nil
	}
	return raw[i+4:]
}

// headLen returns the length of the handshake head this end wrote.
func headLen(e *RealEnd) int {
	raw := e.Net.Tap()
	i := bytes.Index(raw, []byte("\r\n\r\n"))
	if i < 0 {
		return len(raw)
	}
	return i + 4
}

// failedAtOpen: did this op fail before it could have written anything of its
// own (so that the failure may stem from closing the previous writer)? Without
// a view inside the library every failure of the op counts as such.
func (r *OpRec) failedAtOpen() bool { return r.Err != "" }
