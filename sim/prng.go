package wsim

// PRNG is a small, explicit, seedable generator (splitmix64 seeding a
// xoshiro256**). Every choice the simulator or a generator makes comes from
// one of these, derived from VERIF_SEED.
type PRNG struct{ s [4]uint64 }

func splitmix(x *uint64) uint64 {
	*x += 0x9e3779b97f4a7c15
	z := *x
	z = (z ^ (z >> 30)) * 0xbf58476d1ce4e5b9
	z = (z ^ (z >> 27)) * 0x94d049bb133111eb
	return z ^ (z >> 31)
}

// Mix derives a new seed from a list of integers.
func Mix(vs ...uint64) uint64 {
	x := uint64(0x243f6a8885a308d3)
	for _, v := range vs {
		x ^= v
		_ = splitmix(&x)
		x = splitmix(&x)
	}
	return x
}

func NewPRNG(seed uint64) *PRNG {
	p := &PRNG{}
	x := seed
	for i := range p.s {
		p.s[i] = splitmix(&x)
	}
	return p
}

func rotl(x uint64, k uint) uint64 { return (x << k) | (x >> (64 - k)) }

func (p *PRNG) Uint64() uint64 {
	s := &p.s
	r := rotl(s[1]*5, 7) * 9
	t := s[1] << 17
	s[2] ^= s[0]
	s[3] ^= s[1]
	s[1] ^= s[2]
	s[0] ^= s[3]
	s[2] ^= t
	s[3] = rotl(s[3], 45)
	return r
}

// Intn returns a value in [0,n). n must be > 0.
func (p *PRNG) Intn(n int) int {
	if n <= 1 {
		return 0
	}
	return int(p.Uint64() % uint64(n))
}

// Range returns a value in [lo,hi].
func (p *PRNG) Range(lo, hi int) int {
	if hi <= lo {
		return lo
	}
	return lo + p.Intn(hi-lo+1)
}

func (p *PRNG) Bool() bool { return p.Uint64()&1 == 1 }

// Chance returns true with probability num/den.
func (p *PRNG) Chance(num, den int) bool { return p.Intn(den) < num }

func (p *PRNG) Pick(vs []int) int { return vs[p.Intn(len(vs))] }

func (p *PRNG) Fill(b []byte) {
	for i := 0; i < len(b); i += 8 {
		v := p.Uint64()
		for j := 0; j < 8 && i+j < len(b); j++ {
			b[i+j] = byte(v >> (8 * j))
		}
	}
}
