package wsim

import (
	"bytes"
	"encoding/json"
	"io"
	"time"

	"github.com/gorilla/websocket"
)

// ---------------------------------------------------------------------------
// Program interpreters: run a TaskCfg against a real connection, recording an
// OpRec per API call.
// ---------------------------------------------------------------------------

func (rn *runner) runTask(e *RealEnd, tc *TaskCfg, t *Task) {
	if tc.StartMs > 0 {
		t.Sleep(time.Duration(tc.StartMs) * time.Millisecond)
	}
	switch tc.Kind {
	case "reader":
		rn.runReader(e, tc, t)
	default:
		rn.runWriter(e, tc, t)
	}
}

func (rn *runner) deadline(ms int64) time.Time {
	switch {
	case ms == 0:
		return time.Time{}
	case ms < 0:
		return time.Now().Add(time.Duration(ms) * time.Millisecond)
	}
	return time.Now().Add(time.Duration(ms) * time.Millisecond)
}

type chunkReader struct {
	data    []byte
	chunk   int
	withEOF bool // final bytes are returned together with io.EOF (as an io.Reader may)
}

func (r *chunkReader) Read(p []byte) (int, error) {
	if len(r.data) == 0 {
		return 0, io.EOF
	}
	n := len(r.data)
	if r.chunk > 0 && n > r.chunk {
		n = r.chunk
	}
	if n > len(p) {
		n = len(p)
	}
	copy(p, r.data[:n])
	r.data = r.data[n:]
	if r.withEOF && len(r.data) == 0 {
		return n, io.EOF
	}
	return n, nil
}

func (rn *runner) runWriter(e *RealEnd, tc *TaskCfg, t *Task) {
	c := e.Conn
	ewc := !e.Cfg.NoWriteComp
	compNow := func(mt int) string {
		if e.Negotiated && ewc && (mt == websocket.TextMessage || mt == websocket.BinaryMessage) {
			return "comp"
		}
		return ""
	}
	var open io.WriteCloser // writer left open for an implicit close
	for i := range tc.W {
		op := &tc.W[i]
		t.Yield()
		switch op.Kind {
		case "msg", "badtype", "bigctl":
			data := op.Pay.Bytes()
			if op.MT == websocket.CloseMessage && op.Code != 0 {
				data = closeBody(op.Code, op.Pay.Len)
			}
			r := t.Begin("WriteMessage", i)
			r.MsgType, r.Data, r.Note, r.PayLen = op.MT, data, compNow(op.MT), len(data)
			err := c.WriteMessage(op.MT, data)
			t.End(r, err)
			open = nil
		case "json":
			v := jsonVal(op.Pay)
			want, _ := json.Marshal(v)
			want = append(want, '\n')
			r := t.Begin("WriteJSON", i)
			r.MsgType, r.Data, r.Note = websocket.TextMessage, want, compNow(websocket.TextMessage)
			err := c.WriteJSON(v)
			t.End(r, err)
			open = nil
		case "prep":
			r := t.Begin("WritePreparedMessage", i)
			pm := rn.scn.Prepared[op.PM]
			r.MsgType, r.Data, r.Note = pm.MT, rn.pmSrc[op.PM], compNow(pm.MT)
			r.N = op.PM
			r.PayLen = len(rn.pmSrc[op.PM])
			var err error
			if rn.pms[op.PM] == nil {
				err = errRefusedAtCreation
			} else {
				err = c.WritePreparedMessage(rn.pms[op.PM])
			}
			t.End(r, err)
		case "ctl":
			data := op.Pay.Bytes()
			if op.MT == websocket.CloseMessage {
				data = websocket.FormatCloseMessage(op.Code, "")
				if op.Code == 0 {
					data = nil
				}
			}
			r := t.Begin("WriteControl", i)
			r.MsgType, r.Data, r.PayLen = op.MT, data, len(data)
			r.N = int(op.DlMs)
			err := c.WriteControl(op.MT, data, rn.deadline(op.DlMs))
			t.End(r, err)
		case "nw", "fragctl":
			data := op.Pay.Bytes()
			if op.MT == websocket.CloseMessage && op.Code != 0 {
				data = closeBody(op.Code, op.Pay.Len)
			}
			r := t.Begin("NextWriter", i)
			r.MsgType, r.Note, r.PayLen = op.MT, compNow(op.MT), len(data)
			w, err := c.NextWriter(op.MT)
			t.End(r, err)
			open = nil
			if err != nil {
				continue
			}
			written := 0
			failed := false
			for _, ch := range op.Chunks {
				t.Yield()
				if ch.How == "e+" || ch.How == "e-" {
					// a setting changed while a message is open applies to subsequent messages only
					ewc = ch.How == "e+"
					c.EnableWriteCompression(ewc)
					continue
				}
				if ch.How == "cc" {
					// Close of the connection while a message is open (allowed concurrently with everything);
					// the writer is used on and must fail cleanly
					cr := t.Begin("ConnClose", i)
					t.End(cr, c.Close())
					continue
				}
				if ch.How == "l" {
					lr := t.Begin("SetCompressionLevel", i)
					t.End(lr, c.SetCompressionLevel(ch.N))
					continue
				}
				n := ch.N
				if n > len(data)-written {
					n = len(data) - written
				}
				part := data[written : written+n]
				var werr error
				var wn int
				cr := t.Begin("Write:"+ch.How, i)
				cr.MsgType, cr.PayLen = op.MT, len(data)
				switch ch.How {
				case "s":
					wn, werr = io.WriteString(w, string(part))
				case "rf":
					var n64 int64
					n64, werr = io.Copy(w, &chunkReader{data: part, chunk: ch.RfChunk, withEOF: ch.RfEOF})
					wn = int(n64)
				case "z":
					wn, werr = w.Write(nil)
					n = 0
				default:
					wn, werr = w.Write(part)
				}
				cr.N = wn
				cr.N2 = written + n // bytes handed to the writer so far, including this call
				t.End(cr, werr)
				if werr != nil {
					failed = true
					break
				}
				written += n
			}
			mr := t.Begin("Message", i) // summary record of the message
			mr.MsgType, mr.Data, mr.Note, mr.PayLen = op.MT, data[:written], r.Note, len(data)
			switch {
			case failed:
				t.End(mr, errWriteFailed)
				mr.Note += " write-failed"
			case op.End == "implicit":
				open = w
				mr.Note += " implicit"
				t.End(mr, nil)
			case op.End == "abandon":
				mr.Note += " abandoned"
				t.End(mr, errAbandoned)
			default:
				t.Yield()
				cr := t.Begin("Close", i)
				cr.MsgType, cr.PayLen = op.MT, len(data)
				err := w.Close()
				t.End(cr, err)
				t.End(mr, err)
			}
		case "ewc":
			c.EnableWriteCompression(op.B)
			ewc = op.B
		case "lvl":
			r := t.Begin("SetCompressionLevel", i)
			t.End(r, c.SetCompressionLevel(op.Lvl))
		case "wdl":
			c.SetWriteDeadline(rn.deadline(op.DlMs))
			r := t.Begin("SetWriteDeadline", i)
			r.N = int(op.DlMs)
			t.End(r, nil)
		case "sleep":
			t.Sleep(time.Duration(op.DlMs) * time.Millisecond)
		case "close":
			r := t.Begin("ConnClose", i)
			t.End(r, c.Close())
		case "barrier":
			rn.sim.AddCounter(&rn.barrier, 1)
			t.WaitFor(&rn.barrier, op.Lvl)
		case "waitstep":
			rn.sim.WaitStep(t, op.Lvl)
		case "yield":
		}
	}
	_ = open
}

var (
	errRefusedAtCreation = &simError{msg: "NewPreparedMessage refused the message"}
	errWriteFailed = &simError{msg: "a Write on the message writer failed"}
	errAbandoned   = &simError{msg: "writer abandoned"}
)

func (rn *runner) runReader(e *RealEnd, tc *TaskCfg, t *Task) {
	c := e.Conn
	msgs := 0
	size := func(op *ROp, k int) int {
		if len(op.Sizes) == 0 {
			return 512
		}
		n := op.Sizes[k%len(op.Sizes)]
		if n < 0 {
			n = 0
		}
		return n
	}
	extra := func(i int) {
		for k := 0; k < tc.ExtraReads; k++ {
			r := t.Begin("NextReader", i)
			r.Note = "extra"
			mt, rd, err := c.NextReader()
			r.MsgType = mt
			if rd != nil {
				r.Note = "extra reader-non-nil"
			}
			t.End(r, err)
			if k%64 == 63 {
				t.Yield()
			}
		}
	}
	if len(tc.R) == 0 {
		tc.R = []ROp{{Kind: "rm"}}
	}
	// one scratch buffer for all read calls (the harness must not dominate the allocation count)
	maxSize := 512
	for _, op := range tc.R {
		for _, n := range op.Sizes {
			if n > maxSize {
				maxSize = n
			}
		}
	}
	scratch := make([]byte, maxSize+1)
	limitOps := 0
	for i := 0; ; i++ {
		if tc.MaxMsgs > 0 && msgs >= tc.MaxMsgs {
			return
		}
		op := &tc.R[i%len(tc.R)]
		t.Yield()
		switch op.Kind {
		case "limit":
			c.SetReadLimit(op.NewLimit)
			limitOps++
			if limitOps > 4*len(tc.R)+64 {
				return // a program of nothing but limit changes
			}
		case "rm":
			e.delivered = 0
			r := t.Begin("ReadMessage", i)
			mt, p, err := c.ReadMessage()
			r.MsgType, r.Data = mt, p
			t.End(r, err)
			if err != nil {
				extra(i)
				return
			}
			e.msgIndex++
			msgs++
		case "json":
			e.delivered = 0
			var v jsonValue
			r := t.Begin("ReadJSON", i)
			err := c.ReadJSON(&v)
			if err == nil {
				r.Data, _ = json.Marshal(v)
			}
			t.End(r, err)
			if err != nil {
				// a JSON decoding error is not a connection error; tell them apart
				r2 := t.Begin("NextReader", i)
				r2.Note = "probe-after-json-error"
				mt, rd, err2 := c.NextReader()
				r2.MsgType = mt
				t.End(r2, err2)
				if err2 != nil {
					extra(i)
					return
				}
				// unexpected: the connection is fine; read that message out
				b, e3 := io.ReadAll(rd)
				r3 := t.Begin("ReadBody", i)
				r3.Data = b
				t.End(r3, e3)
				if e3 != nil && e3 != io.EOF {
					extra(i)
					return
				}
			}
			e.msgIndex++
			msgs++
		case "join":
			jr := websocket.JoinMessages(c, op.Term)
			r := t.Begin("Join", i)
			r.Note = op.Term
			var all []byte
			var err error
			for k := 0; ; k++ {
				buf := scratch[:size(op, k)+1]
				var n int
				n, err = jr.Read(buf)
				all = append(all, buf[:n]...)
				e.delivered += n
				if err != nil {
					break
				}
			}
			r.Data = all
			t.End(r, err)
			extra(i)
			return
		default: // "nr"
			e.delivered = 0
			r := t.Begin("NextReader", i)
			mt, rd, err := c.NextReader()
			r.MsgType = mt
			t.End(r, err)
			if err != nil {
				extra(i)
				return
			}
			br := t.Begin("ReadBody", i)
			br.MsgType = mt
			var all []byte
			var rerr error
			calls := 0
			limitSet := !op.SetLimit
			for k := 0; ; k++ {
				if !limitSet && len(all) >= op.LimitAt {
					c.SetReadLimit(op.NewLimit)
					limitSet = true
				}
				if (op.Abandon > 0 && len(all) >= op.Abandon) || op.Abandon < 0 {
					br.Note = "abandoned"
					break
				}
				n := size(op, k)
				if op.Abandon > 0 && n > op.Abandon-len(all) {
					n = op.Abandon - len(all)
				}
				if !limitSet && n > op.LimitAt-len(all) {
					n = op.LimitAt - len(all)
				}
				buf := scratch[:n]
				got, err := rd.Read(buf)
				calls++
				if got > 0 && n == 0 {
					br.Note = "zero-length read returned data"
				}
				all = append(all, buf[:got]...)
				e.delivered += got
				if err != nil {
					rerr = err
					break
				}
				if n == 0 && k > 64 && len(op.Sizes) == 1 {
					break // only zero-length reads: give up on this message
				}
			}
			br.Data = all
			br.N = calls
			t.End(br, rerr)
			if rerr != nil && rerr != io.EOF {
				// the message reader failed: NextReader must now fail too
				r2 := t.Begin("NextReader", i)
				r2.Note = "after-body-error"
				mt2, _, err2 := c.NextReader()
				r2.MsgType = mt2
				t.End(r2, err2)
				if err2 != nil {
					extra(i)
				}
				return
			}
			e.msgIndex++
			msgs++
		}
	}
}

// WaitFor parks the task until *v >= want.
func (t *Task) WaitFor(v *int, want int) {
	r := &parkRec{kind: opWait, task: t, waitVar: v, waitVal: want}
	t.sim.park(r)
	if r.abort {
		panic(abortRun{})
	}
}

//go:norace
func (s *Sim) AddCounter(v *int, d int) {
	s.lock()
	*v += d
	s.unlock()
}

//go:norace
func (s *Sim) readCounter(v *int) int {
	s.lock()
	x := *v
	s.unlock()
	return x
}

var _ = bytes.Equal

// closeBody is a valid close payload of exactly n bytes when n >= 2 (code +
// ASCII reason), or empty.
func closeBody(code, n int) []byte {
	if n < 2 {
		return []byte{}
	}
	b := websocket.FormatCloseMessage(code, "")
	for len(b) < n {
		b = append(b, byte('a'+len(b)%26))
	}
	return b
}
