package wsim

import (
	"bytes"
	"fmt"
	"strings"

	"wsim/wsframe"
)

// C01 — round-trip fidelity; C02 — wire format. Both are judged on family A
// (pair) runs: a real client and a real server exchanging traffic both ways.

func init() {
	register(&PropDef{ID: "C01", Num: 1, Gen: func(r *PRNG, tier string) *Scenario { return genPair(r, tier, "C01", pairOpts{}) }, Oracle: oracleC01, Level: "exploration"})
	register(&PropDef{ID: "C02", Num: 2, Gen: func(r *PRNG, tier string) *Scenario { return genPair(r, tier, "C02", pairOpts{}) }, Oracle: oracleC02, Level: "exploration"})
}

type pairOpts struct {
	sharePool   bool // every end uses the same WriteBufferSize and one shared pool
	prepared    bool // prepared messages are the point of the scenario
	prepMore    bool // most data ops are prepared sends
	minWBuf     int  // smallest write buffer generated (0 = any)
	noCtlMsgs   bool // no control messages through the message APIs
	controllers int  // max controllers per end
	links       int
	poolW       int
}

// genPair draws a fault-free pair scenario.
func genPair(r *PRNG, tier, prop string, o pairOpts) *Scenario {
	big := r.Chance(1, 12) || (tier == "thorough" && r.Chance(1, 4))
	scn := &Scenario{Prop: prop, Class: "pair-faultfree", Seed: r.Uint64() >> 1, Sched: genSched(r)}
	slow := scn.Sched.ReadMode == "one" || scn.Sched.ReadMode == "small"
	capAB, capBA := genCap(r), genCap(r)
	if capAB < 64 || capBA < 64 {
		slow = true
	}
	if slow {
		big = false
	}
	nl := o.links
	if nl <= 0 {
		nl = 1
		if r.Chance(1, 10) {
			nl = r.Range(2, 3) // several connections in one process (they share the deflate pools)
		}
	}
	long := r.Chance(1, 15) && !slow // a long history of small messages on one connection
	if long {
		scn.Class = "pair-faultfree-long-history"
	}
	grand := 0
	var closers []*WOp
	np := 0
	if r.Chance(1, 3) || o.prepared {
		np = r.Range(1, 2)
		for i := 0; i < np; i++ {
			mt := r.Range(1, 2)
			pl := genLen(r, 4096, false)
			if o.prepared && r.Chance(1, 3) {
				pl = r.Range(4097, 3*4096)
			}
			scn.Prepared = append(scn.Prepared, Prepared{MT: mt, Pay: Payload{Len: pl, Kind: genKind(r, mt), Seed: r.Uint64() >> 1}, Mutate: r.Bool()})
		}
		if o.prepared && r.Chance(1, 3) {
			scn.Prepared = append(scn.Prepared, Prepared{MT: 9, Pay: Payload{Len: r.Range(0, 125), Seed: r.Uint64() >> 1}, Mutate: r.Bool()})
			np++
		}
	}
	for li := 0; li < nl; li++ {
		compC, compS := r.Chance(1, 2), r.Chance(1, 2)
		if r.Chance(1, 2) {
			compC, compS = true, true
		}
		cl := &EndCfg{ReadBuf: genBuf(r), WriteBuf: genWBuf(r, o.minWBuf), Compression: compC}
		sv := &EndCfg{ReadBuf: genBuf(r), WriteBuf: genWBuf(r, o.minWBuf), Compression: compS, Server: r.PickS([]string{"mini", "mini", "nethttp"})}
		if sv.Server == "mini" {
			sv.HijackR = r.Pick([]int{0, 0, 16, 64, 300, 4096})
			sv.HijackW = r.Pick([]int{0, 0, 16, 300, 4096})
		}
		if o.sharePool {
			if li == 0 {
				o.poolW = genWBuf(r, o.minWBuf)
			}
			cl.WriteBuf, sv.WriteBuf = o.poolW, o.poolW
			cl.Pool, sv.Pool = 1, 1
		}
		for _, e := range []*EndCfg{cl, sv} {
			if r.Chance(1, 3) && li == 0 && !o.sharePool {
				e.Pool = 1
				if e == sv && cl.Pool != 0 && effW(cl.WriteBuf) != effW(sv.WriteBuf) {
					e.Pool = 2 // one pool per write buffer size, as the documentation requires
				}
			}
			if r.Chance(1, 3) {
				e.SetLevel = true
				e.Level = r.Range(-2, 9)
			}
			if r.Chance(1, 6) {
				e.NoWriteComp = true
			}
			if r.Chance(1, 5) {
				e.ResetHandlers = true
			}
		}
		// read styles first: a JSON reader needs a JSON writer on the other side
		styleC := r.PickS([]string{"", "", "", "json", "join", "noabandon"})
		styleS := r.PickS([]string{"", "", "", "json", "join", "noabandon"})
		maxMsgs := 12
		if slow {
			maxMsgs = 5
		}
		if long {
			maxMsgs = r.Range(100, 400)
		}
		prog := func(w int, readerStyle string, isClient bool) []WOp {
			n := r.Range(1, maxMsgs)
			if long {
				n = maxMsgs
			}
			var ops []WOp
			for i := 0; i < n; i++ {
				op := genWriteOp(r, effW(w), big, np)
				if long && op.Pay.Len > 64 {
					op.Pay.Len = r.Range(0, 64)
					fixChunks(&op)
				}
				if o.prepMore && np > 0 && r.Chance(1, 2) {
					op = WOp{Kind: "prep", PM: r.Intn(np)}
				}
				if op.Kind == "prep" && scn.Prepared[op.PM].MT == 9 && !isClient {
					op.PM = 0 // pings come from the client side only (see the back-pressure rule of the fault-free class)
				}
				if slow && op.Pay.Len > 3000 {
					op.Pay.Len = r.Range(0, 3000)
					fixChunks(&op)
				}
				if readerStyle == "json" {
					ln := op.Pay.Len
					if ln > 3000 {
						ln = r.Range(0, 3000)
					}
					op = WOp{Kind: "json", MT: 1, Pay: Payload{Len: ln, Kind: "json", Seed: op.Pay.Seed}}
				}
				ops = append(ops, op)
				if op.End == "implicit" {
					if r.Chance(1, 3) {
						// settings changed while the writer is still open govern subsequent messages only
						if r.Bool() {
							ops = append(ops, WOp{Kind: "ewc", B: r.Bool()})
						} else {
							ops = append(ops, WOp{Kind: "lvl", Lvl: r.Range(-2, 9)})
						}
					}
					// an implicitly closed writer must be followed by a message op that closes it
					nx := genWriteOp(r, effW(w), false, 0)
					if nx.Kind == "prep" {
						nx = WOp{Kind: "msg", MT: 2, Pay: Payload{Len: 3, Seed: 9}}
					}
					nx.End = "close"
					if readerStyle == "json" {
						nx = WOp{Kind: "json", MT: 1, Pay: Payload{Len: 5, Kind: "json", Seed: 77}}
					}
					if nx.Kind == "nw" {
						nx.End = "close"
					}
					if !o.noCtlMsgs && r.Chance(1, 3) {
						// the open writer is closed implicitly by a *control* message sent through
						// WriteMessage or NextWriter (documented for every NextWriter, of which WriteMessage
						// is a helper): the data message must be completed first, then the control frame
						cmt := 10
						if isClient && r.Bool() {
							cmt = 9
						}
						cln := r.Pick([]int{0, 1, 50, 124, 125})
						cpay := Payload{Len: cln, Seed: r.Uint64() >> 1}
						if r.Bool() {
							nx = WOp{Kind: "msg", MT: cmt, Pay: cpay}
						} else {
							nx = WOp{Kind: "nw", MT: cmt, Pay: cpay, Chunks: genChunks(r, cln), End: "close"}
						}
					}
					ops = append(ops, nx)
				}
				// control traffic from the writer goroutine
				if r.Chance(1, 4) {
					ln := r.Pick([]int{0, 1, 50, 100, 124, 125})
					mt := 10
					if isClient && r.Bool() {
						mt = 9
					}
					via := r.Intn(3)
					if o.noCtlMsgs {
						via = 0
					}
					pay := Payload{Len: ln, Seed: r.Uint64() >> 1}
					switch via {
					case 0:
						dl := int64(r.Pick([]int{0, 60000, 100, 1000}))
						ops = append(ops, WOp{Kind: "ctl", MT: mt, Pay: pay, DlMs: dl})
						if dl > 0 && dl < 60000 && r.Bool() {
							// let that deadline pass before the next message: a control deadline must not outlive its frame
							ops = append(ops, WOp{Kind: "sleep", DlMs: dl + int64(r.Pick([]int{1, 50, 2000}))})
						}
					case 1:
						ops = append(ops, WOp{Kind: "msg", MT: mt, Pay: pay})
					default:
						ops = append(ops, WOp{Kind: "nw", MT: mt, Pay: pay, Chunks: genChunks(r, ln), End: "close"})
					}
				}
				if r.Chance(1, 10) {
					// idle long enough for any reply deadline (pong: now+1s) to lapse
					ops = append(ops, WOp{Kind: "sleep", DlMs: int64(r.Pick([]int{1100, 5000}))})
				}
				if r.Chance(1, 5) {
					ops = append(ops, WOp{Kind: "ewc", B: r.Bool()})
				}
				if r.Chance(1, 6) {
					ops = append(ops, WOp{Kind: "lvl", Lvl: r.Range(-2, 9)})
				}
			}
			return ops
		}
		cw := prog(cl.WriteBuf, styleS, true)
		sw := prog(sv.WriteBuf, styleC, false)
		nctlC, nctlS := 0, 0
		if o.controllers > 0 {
			nctlC, nctlS = r.Intn(o.controllers+1), r.Intn(o.controllers+1)
		}
		total := 2 + nctlC + nctlS
		cw = append(cw, WOp{Kind: "barrier", Lvl: total}, WOp{Kind: "ctl", MT: 8, Code: 1000, DlMs: 0})
		sw = append(sw, WOp{Kind: "barrier", Lvl: 0})
		ctask := []TaskCfg{{Kind: "writer", W: cw}, {Kind: "reader", R: genReadProg(r, styleC), ExtraReads: r.Pick([]int{0, 2})}}
		stask := []TaskCfg{{Kind: "writer", W: sw}, {Kind: "reader", R: genReadProg(r, styleS), ExtraReads: r.Pick([]int{0, 2})}}
		ctlProg := func(isClient bool) []WOp {
			var ops []WOp
			n := r.Range(1, 6)
			for i := 0; i < n; i++ {
				mt := 10
				if isClient && r.Bool() {
					mt = 9
				}
				ops = append(ops, WOp{Kind: "ctl", MT: mt, Pay: Payload{Len: r.Pick([]int{0, 8, 125, r.Range(0, 125)}), Seed: r.Uint64() >> 1}, DlMs: int64(r.Pick([]int{0, 3600000}))})
			}
			return append(ops, WOp{Kind: "barrier", Lvl: 0})
		}
		for i := 0; i < nctlC; i++ {
			ctask = append(ctask, TaskCfg{Kind: "ctl", W: ctlProg(true)})
		}
		for i := 0; i < nctlS; i++ {
			stask = append(stask, TaskCfg{Kind: "ctl", W: ctlProg(false)})
		}
		scn.Links = append(scn.Links, Link{Client: cl, Server: sv, CTasks: ctask, STasks: stask})
		scn.Net.Conns = append(scn.Net.Conns, ConnCfg{CapAB: capAB, CapBA: capBA})
		grand += total
		closers = append(closers, &scn.Links[li].CTasks[0].W[len(cw)-2])
	}
	for li := range scn.Links {
		w := scn.Links[li].CTasks[0].W
		for k := range w {
			if w[k].Kind == "barrier" && w[k].Lvl > 0 {
				w[k].Lvl = grand
			}
		}
	}
	_ = closers
	return scn
}

// pairEnds returns the client and server ends of link i if both upgraded.
func pairEnds(run *Run, i int) (c, s *RealEnd) {
	c, s = run.RealAt[i*2], run.RealAt[i*2+1]
	if c == nil || s == nil || c.Conn == nil || s.Conn == nil {
		return nil, nil
	}
	return
}

func endName(e *RealEnd) string {
	if e.IsServer {
		return fmt.Sprintf("link%d/server", e.Link)
	}
	return fmt.Sprintf("link%d/client", e.Link)
}

// allWritesAccepted: in the fault-free class every write op must return nil.
func allWritesAccepted(run *Run, prop string, e *RealEnd) {
	for _, t := range e.Tasks {
		for _, r := range t.Hist {
			switch r.Op {
			case "WriteMessage", "WriteJSON", "WritePreparedMessage", "WriteControl", "NextWriter", "Close", "Write:w", "Write:s", "Write:rf", "Write:z", "SetCompressionLevel":
				if r.Err != "" && !r.Teardown {
					kind := "data"
					if r.MsgType >= 8 {
						kind = "control"
					}
					wb := e.Cfg.WriteBuf
					cls := "any-wbuf"
					if kind == "control" && r.Op == "Write:rf" && r.PayLen <= 125 && (r.N2 == wb || r.N2 == 125) {
						// ReadFrom (io.Copy) called when the bytes so far fill the write buffer exactly
						cls = "readfrom-fills-buffer-exactly"
					} else if wb > 0 && kind == "control" && r.PayLen > wb && r.PayLen <= 125 {
						cls = "wbuf<payload<=125"
					}
					run.fail(prop, "write-refused", fmt.Sprintf("%s/%s", kind, cls),
						"%s: %s of a valid %s message (type %d, %d bytes, write buffer %d) returned %s: %s", endName(e), r.Op, kind, r.MsgType, len(r.Data), wb, r.Err, r.ErrText)
				}
			}
		}
	}
}


func oracleC01(run *Run) {
	commonChecks(run)
	c, s := pairEnds(run, 0)
	if c == nil {
		run.fail("HARNESS", "no-connection", "hs", "pair handshake failed")
		return
	}
	for _, p := range run.Panics {
		run.fail("C01", "panic", "panic", "%s", p)
	}
	if run.Reason != "done" {
		// a refused write leaves the barrier unreached; report that first
		allWritesAccepted(run, "C01", c)
		allWritesAccepted(run, "C01", s)
		if len(run.Findings) == 0 {
			run.fail("C01", "stuck", "stuck/"+run.Reason, "the run did not finish (%s)", run.Reason)
		}
		return
	}
	allWritesAccepted(run, "C01", c)
	allWritesAccepted(run, "C01", s)
	for _, dir := range [][2]*RealEnd{{c, s}, {s, c}} {
		from, to := dir[0], dir[1]
		sent, _, _ := sentLog(findTask(from, "writer"))
		obs, _ := observations(findTask(to, "reader"))
		term := ""
		for _, o := range obs {
			if o.Kind == "join" {
				term = o.Rec.Note
			}
		}
		who := endName(from) + "->" + endName(to)
		matched, errAt := checkDelivery(run, "C01", who, sent, obs, term)
		run.Obligations += matched
		if matched != len(sent) {
			run.fail("C01", "missing-message", "missing", "%s: %d messages sent, %d delivered before the reader stopped", who, len(sent), matched)
		}
		if errAt < len(obs) {
			if o := obs[errAt]; o.Err != "CloseError:1000" {
				run.fail("C01", "wrong-terminal-error", "terminal", "%s: reader ended with %s (%s), expected the close 1000", who, o.Err, o.ErrText)
			}
		}
	}
}

// ---------------------------------------------------------------------------
// C02
// ---------------------------------------------------------------------------

// checkTap judges the wire output of one real end against its sent log.
// peerPings: ping payloads the other side sent (the reader answers them).
func checkTap(run *Run, prop string, e *RealEnd, peer *RealEnd, strictComplete bool) *TapView {
	raw := wsTap(e)
	if e.Net.TapOverflow() {
		run.fail("HARNESS", "tap-overflow", "tap", "tap overflow")
		return nil
	}
	tv := decodeTap(raw, !e.IsServer, e.Negotiated)
	who := endName(e)
	if tv.V != nil {
		run.fail(prop, "malformed-wire", tv.V.Rule, "%s wrote a malformed stream: %s", who, tv.V.Error())
		return tv
	}
	if strictComplete && tv.Tail != len(raw) {
		run.fail(prop, "incomplete-frame", "tail", "%s: %d trailing bytes do not form a complete frame", who, len(raw)-tv.Tail)
	}
	if strictComplete && tv.Open != nil {
		run.fail(prop, "unfinished-message", "open", "%s: the stream ends inside a fragmented message although every writer was closed", who)
	}
	// reach probes (observable facts about this tap)
	for i, f := range tv.Frames {
		switch f.LenBytes {
		case 2:
			run.Stats.Probes[pLen16]++
		case 8:
			run.Stats.Probes[pLen64]++
		}
		if f.IsControl() && len(f.Payload) == 125 {
			run.Stats.Probes[pCtl125]++
		}
		if !f.IsControl() && len(f.Payload) == 0 && !(f.Fin && f.Opcode != 0) {
			run.Stats.Probes[pEmptyFragment]++
		}
		if f.IsControl() && i > 0 && i+1 < len(tv.Frames) && !tv.Frames[i-1].Fin && !tv.Frames[i-1].IsControl() {
			run.Stats.Probes[pControlBetweenFragments]++
		}
		if e.IsServer && !f.IsControl() && len(f.Payload) > 2*(effW(e.Cfg.WriteBuf)+14) {
			run.Stats.Probes[pServerDirectWrite]++
		}
	}
	for _, it := range tv.Items {
		if it.Compressed {
			run.Stats.Probes[pCompressedMsg]++
		}
	}
	// data messages vs sent log
	sent, _, _ := sentLog(findTask(e, "writer"))
	for _, m := range sent {
		if strings.Contains(m.Note, "implicit") {
			run.Stats.Probes[pImplicitClose]++
		}
	}
	var data []wsframe.Item
	var ctls []wsframe.Item
	for _, it := range tv.Items {
		if it.Control {
			ctls = append(ctls, it)
		} else {
			data = append(data, it)
		}
	}
	n := len(data)
	if len(sent) < n {
		n = len(sent)
	}
	for i := 0; i < n; i++ {
		it, m := data[i], sent[i]
		if int(it.Opcode) != m.MT {
			run.fail(prop, "wire-type", "type", "%s: wire message %d has opcode %d, API sent type %d", who, i, it.Opcode, m.MT)
		}
		if !bytes.Equal(it.Payload, m.Payload) {
			run.fail(prop, "wire-payload", "payload", "%s: wire message %d decodes to %d bytes (%s), API wrote %d bytes; first difference at %d", who, i, len(it.Payload), short(it.Payload), len(m.Payload), firstDiff(it.Payload, m.Payload))
		}
		wantComp := bytes.HasPrefix([]byte(m.Note), []byte("comp"))
		if it.Compressed != wantComp {
			run.fail(prop, "wire-rsv1", fmt.Sprintf("rsv1=%v", it.Compressed), "%s: wire message %d has RSV1=%v but write compression was %v when the message was opened (negotiated=%v)", who, i, it.Compressed, wantComp, e.Negotiated)
		}
		run.Obligations++
	}
	if strictComplete && len(data) != len(sent) {
		run.fail(prop, "wire-count", "count", "%s: %d data messages on the wire, %d API-level messages sent", who, len(data), len(sent))
	}
	// control frames: attributable to a control write of this end or a reply
	want := map[string]int{}
	for _, t := range e.Tasks {
		_, _, ctl := sentLog(t)
		for _, m := range ctl {
			want[fmt.Sprintf("%d:%x", m.MT, m.Payload)]++
		}
	}
	pings := map[string]int{}
	if peer != nil {
		for _, t := range peer.Tasks {
			_, _, ctl := sentLog(t)
			for _, m := range ctl {
				if m.MT == 9 {
					pings[string(m.Payload)]++
				}
			}
		}
	}
	closes := 0
	for _, it := range ctls {
		k := fmt.Sprintf("%d:%x", it.Opcode, it.Payload)
		switch {
		case want[k] > 0:
			want[k]--
		case it.Opcode == wsframe.OpPong && pings[string(it.Payload)] > 0:
			pings[string(it.Payload)]--
		case it.Opcode == wsframe.OpClose:
			closes++
			if closes > 1 {
				run.fail(prop, "wire-control", "second-close", "%s: a second close frame is on the wire", who)
			}
		default:
			run.fail(prop, "wire-control", "unattributable", "%s: control frame opcode %d payload %s matches no control message this end sent and no ping it received", who, it.Opcode, short(it.Payload))
		}
	}
	if strictComplete {
		for k, v := range want {
			if v > 0 {
				run.fail(prop, "wire-control", "missing", "%s: control message %s was accepted by the API but is not on the wire", who, k[:min(len(k), 40)])
				break
			}
		}
	}
	return tv
}

// checkMaskKeys: every client frame's key was issued by the simulator's key
// source, and no issued word masks two built frames (prepared frames are
// built once and may repeat).
func checkMaskKeys(run *Run, prop string, views []*TapView, ends []*RealEnd) {
	if !maskDefaultIsCryptoRand() {
		run.fail(prop, "mask-source", "default", "the library's default mask-key source is not crypto/rand.Reader")
	}
	// every key is a 4-byte window of the byte stream the source handed out, and no window is used by
	// more frames than it occurs (a library may fetch keys in batches; it may not reuse or invent them)
	prepared := len(run.Scn.Prepared) > 0
	used := map[[4]byte]int{}
	for i, tv := range views {
		if tv == nil || ends[i].IsServer {
			continue
		}
		for _, f := range tv.Frames {
			if !bytes.Contains(run.MaskStream, f.Key[:]) {
				run.fail(prop, "mask-key", "not-issued", "%s: frame at byte %d is masked with %x, which the key source never handed out", endName(ends[i]), f.Start, f.Key)
				return
			}
			used[f.Key]++
		}
	}
	if !prepared {
		for k, n := range used {
			if n > 1 && n > bytes.Count(run.MaskStream, k[:])+countOverlaps(run.MaskStream, k[:]) {
				run.fail(prop, "mask-key", "reused", "masking key %x was handed out %d time(s) but masks %d frames", k, bytes.Count(run.MaskStream, k[:]), n)
				return
			}
		}
	}
}

// countOverlaps counts occurrences that bytes.Count (non-overlapping) misses.
func countOverlaps(s, k []byte) int {
	all := 0
	for i := 0; i+len(k) <= len(s); i++ {
		if bytes.Equal(s[i:i+len(k)], k) {
			all++
		}
	}
	return all - bytes.Count(s, k)
}

func oracleC02(run *Run) {
	commonChecks(run)
	c, s := pairEnds(run, 0)
	if c == nil {
		run.fail("HARNESS", "no-connection", "hs", "pair handshake failed")
		return
	}
	strict := run.Reason == "done"
	// a write refused by the API is C01's matter; C02 judges what is on the wire
	for _, e := range []*RealEnd{c, s} {
		for _, t := range e.Tasks {
			for _, r := range t.Hist {
				if r.Err != "" && r.Op != "NextReader" && r.Op != "ReadMessage" && r.Op != "ReadBody" && r.Op != "ReadJSON" && r.Op != "Join" {
					strict = false
				}
			}
		}
	}
	tc := checkTap(run, "C02", c, s, strict)
	ts := checkTap(run, "C02", s, c, strict)
	checkMaskKeys(run, "C02", []*TapView{tc, ts}, []*RealEnd{c, s})
}
