package wsim

import (
	"encoding/json"
	"fmt"
)

// C03 — the reader decodes any conformant peer stream.

func init() {
	register(&PropDef{ID: "C03", Num: 3, Gen: genC03, Oracle: oracleC03, Level: "exploration",
		Rule: "scenario = random conformant script (1-10 messages, random fragmentation incl. empty frames, mask keys, interleaved pings/pongs, 5 deflate producers) x role x read buffer x read program x transport segmentation/capacity x schedule; non-trivial = at least one message was delivered and compared; distinct = distinct trace digests"})
}

func genC03(r *PRNG, tier string) *Scenario {
	big := r.Chance(1, 12) || (tier == "thorough" && r.Chance(1, 4))
	scn := &Scenario{Prop: "C03", Class: "conformant", Seed: r.Uint64() >> 1, Sched: genSched(r)}
	if big && (scn.Sched.ReadMode == "one" || scn.Sched.ReadMode == "small") {
		scn.Sched.ReadMode = "uniform" // megabyte messages one byte at a time only overflow the logs
	}
	realIsServer := r.Bool()
	comp := r.Chance(1, 2)
	end := &EndCfg{ReadBuf: genBuf(r), WriteBuf: genWBuf(r, 125), Compression: comp}
	style := r.PickS([]string{"", "", "", "json", "join", "noabandon"})
	nmsg := r.Range(1, 10)
	var script []SItem
	for i := 0; i < nmsg; i++ {
		it := genScriptMsg(r, comp, big, true)
		if style == "json" {
			it.MT = 1
			it.Pay.Kind = "json"
			if it.Pay.Len > 4000 {
				it.Pay.Len = r.Range(0, 4000)
			}
		}
		script = append(script, it)
		if r.Chance(1, 6) {
			d := make([]byte, r.Range(0, 125))
			r.Fill(d)
			script = append(script, SItem{Kind: "ctl", Op: r.Pick([]int{9, 10}), Data: d})
		}
		if r.Chance(1, 10) {
			script = append(script, SItem{Kind: "pause", PauseMs: int64(r.Pick([]int{1, 50, 2000}))})
		}
	}
	script = append(script, SItem{Kind: "ctl", Op: 8, Code: 1000, Reason: "bye"})
	l := Link{Script: script, ScriptChunk: r.Pick([]int{0, 0, 1, 3, 100, 5000})}
	task := TaskCfg{Kind: "reader", R: genReadProg(r, style), ExtraReads: r.Pick([]int{0, 1, 3})}
	if realIsServer {
		end.Server = r.PickS([]string{"mini", "mini", "nethttp"})
		if end.Server == "mini" {
			end.HijackR = r.Pick([]int{0, 16, 64, 300, 4096})
		}
		l.Server = end
		l.STasks = []TaskCfg{task}
	} else {
		l.Client = end
		l.CTasks = []TaskCfg{task}
	}
	scn.Links = []Link{l}
	scn.Net = NetCfg{DefCap: genCap(r)}
	switch r.Intn(6) {
	case 0:
		// the write side of the reading connection is broken (its first write fails, so every pong
		// and the close echo fail): a conformant stream must still be delivered in full
		scn.Class = "conformant-write-side-broken"
		f := OpFault{Side: "w", AfterHead: true, K: r.Range(0, 2), Kind: r.Pick([]int{fErr, fErr, fTimeout, fShort}), N: 1}
		if realIsServer {
			scn.Net.Conns = []ConnCfg{{FaultsB: []OpFault{f}}}
		} else {
			f.K += 1 // (the client's first write-side op after its request is the deadline reset of Dial)
			scn.Net.Conns = []ConnCfg{{FaultsA: []OpFault{f}}}
		}
	case 1:
		// two connections reading compressed messages at the same time (they share the
		// process-wide inflater pool)
		if comp && style != "json" {
			scn.Class = "conformant-two-connections"
			l2 := cloneLink(&scn.Links[0])
			for i := range l2.Script {
				if l2.Script[i].Kind == "msg" {
					l2.Script[i].Pay.Seed ^= 0x9e37
					l2.Script[i].Comp = 1 + r.Intn(4)
				}
			}
			for i := range scn.Links[0].Script {
				if scn.Links[0].Script[i].Kind == "msg" {
					scn.Links[0].Script[i].Comp = 1 + r.Intn(4)
				}
			}
			scn.Links = append(scn.Links, *l2)
		}
	}
	return scn
}

func cloneLink(l *Link) *Link {
	b, _ := json.Marshal(l)
	var c Link
	_ = json.Unmarshal(b, &c)
	return &c
}

// expectedMsgs lists the complete, conformant data messages a script encodes.
func expectedMsgs(exps []Exp) []Msg {
	var out []Msg
	for _, x := range exps {
		if x.Violation != "" {
			break
		}
		if !x.Control && x.Complete {
			out = append(out, Msg{MT: x.Op, Payload: x.Payload})
		}
	}
	return out
}

// expectedWithPartial additionally lists a trailing unfinished message (one
// whose FIN frame is not in the script before the violation or stall), with
// the bytes of it that are on the wire.
func expectedWithPartial(exps []Exp) (out []Msg, complete int) {
	for _, x := range exps {
		if x.Violation != "" {
			break
		}
		if x.Control {
			continue
		}
		if x.Complete {
			out = append(out, Msg{MT: x.Op, Payload: x.Payload})
			complete++
			continue
		}
		sent := 0
		for i, n := range x.FragWire {
			if x.StallHdrEnd > 0 && i == len(x.FragWire)-1 && x.FragEnds[i] > x.StallHdrEnd {
				break
			}
			sent += n
		}
		if x.StallHdrEnd > 0 {
			// the last listed fragment is header-only
			sent = 0
			for i := 0; i < len(x.FragWire)-1; i++ {
				sent += x.FragWire[i]
			}
		}
		p := x.Payload
		if !x.Compressed && sent <= len(p) {
			p = p[:sent]
		}
		out = append(out, Msg{MT: x.Op, Payload: p, Partial: true})
		break
	}
	return
}

func realOfLink(run *Run, i int) *RealEnd {
	for _, e := range run.Reals {
		if e.Link == i && e.Conn != nil {
			return e
		}
	}
	return nil
}

func oracleC03(run *Run) { oracleConformant(run, "C03") }

// oracleConformant: a real reader consumed a conformant script; everything the
// script encodes must have been delivered, then the close reported.
func oracleConformant(run *Run, prop string) {
	commonChecks(run)
	for li := range run.Scn.Links {
		oracleConformantLink(run, prop, li)
	}
	for _, p := range run.Panics {
		run.fail(prop, "panic", "panic", "%s", p)
	}
}

func oracleConformantLink(run *Run, prop string, li int) {
	l := &run.Scn.Links[li]
	e := realOfLink(run, li)
	if e == nil {
		if run.Scn.Class != "conformant-write-side-broken" {
			run.fail("HARNESS", "no-connection", "hs", "handshake with the scripted peer did not produce a connection")
		}
		return
	}
	_, exps := ExpandScript(l.Script, e.IsServer, run.Scn.Seed+uint64(li))
	want := expectedMsgs(exps)
	rt := findTask(e, "reader")
	obs, _ := observations(rt)
	who := fmt.Sprintf("reader(link=%d,server=%v)", li, e.IsServer)
	term := ""
	for _, o := range obs {
		if o.Kind == "join" {
			term = o.Rec.Note
		}
	}
	matched, errAt := checkDelivery(run, prop, who, want, obs, term)
	run.Obligations += matched
	if rt == nil || !rt.Finished || run.Reason != "done" {
		run.fail(prop, "reader-stuck", "stuck", "%s: the read program did not finish (reason %s); %d of %d messages delivered", who, run.Reason, matched, len(want))
		return
	}
	if matched != len(want) {
		run.fail(prop, "missing-message", "missing", "%s: only %d of %d messages were delivered before the read API reported an error", who, matched, len(want))
	}
	if errAt < len(obs) {
		o := obs[errAt]
		if o.Err != "CloseError:1000" {
			run.fail(prop, "wrong-terminal-error", "terminal", "%s: stream ended with a close frame 1000 but the read API reported %s (%s)", who, o.Err, o.ErrText)
		}
	} else {
		run.fail(prop, "no-terminal-error", "terminal", "%s: the close frame was not reported", who)
	}
}
