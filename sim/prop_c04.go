package wsim

import (
	"fmt"

	"wsim/wsframe"
)

// C04 — framing violations are rejected fail-stop and never reach the application.

func init() {
	register(&PropDef{ID: "C04", Num: 4, Gen: genC04, Oracle: oracleC04, Level: "exploration"})
}

var badCloseCodes = []int{0, 1, 999, 1004, 1005, 1006, 1015, 1016, 1100, 2000, 2999, 5000, 6000, 65535}

// genViolation draws one violating frame. inMsg: a fragmented message is open.
func genViolation(r *PRNG, comp, inMsg bool, openLen ...int) SItem {
	dataOp := byte(r.Range(1, 2))
	contOp := byte(0)
	natural := dataOp // an opcode that would be legal here
	if inMsg {
		natural = contOp
	}
	anyLegal := []byte{natural, 9, 10}[r.Intn(3)]
	fin := byte(0x80)
	small := Payload{Len: r.Pick([]int{0, 1, 5, 60, 125}), Seed: r.Uint64() >> 1}
	it := SItem{Kind: "raw", Pay: small}
	for {
		switch r.Intn(14) {
		case 0:
			it.B0, it.Reason = fin|0x20|anyLegal, "rsv2"
			if comp && r.Bool() {
				it.B0 |= 0x40 // together with a legitimately usable RSV1
				if r.Bool() {
					it.B0 |= 0x10
				}
			}
		case 1:
			it.B0, it.Reason = fin|0x10|anyLegal, "rsv3"
			if comp && r.Bool() {
				it.B0 |= 0x40
			}
		case 2:
			if comp {
				continue
			}
			it.B0, it.Reason = fin|0x40|natural, "rsv1-unnegotiated"
			if r.Chance(1, 4) {
				it.B0 = fin | 0x40 | byte(r.Pick([]int{9, 10}))
			}
		case 3:
			op := byte(r.Pick([]int{3, 4, 5, 6, 7, 11, 12, 13, 14, 15}))
			it.B0, it.Reason = fin|op, "reserved-opcode"
			if r.Chance(1, 3) {
				it.B0 = op // without FIN
			}
		case 4:
			it.B0, it.Reason = byte(r.Pick([]int{8, 9, 10})), "control-fragmented"
		case 5:
			it.B0, it.Reason = fin|byte(r.Pick([]int{8, 9, 10})), "control-oversized"
			if r.Bool() {
				it.Pay = Payload{Len: r.Pick([]int{126, 127, 200, 1000}), Seed: 5}
			} else {
				it.LenCode = byte(r.Pick([]int{126, 127}))
				it.Claimed = uint64(r.Pick([]int{0, 1, 125, 126, 70000}))
				it.Pay = Payload{Len: r.Pick([]int{0, 10, 126}), Seed: 5}
			}
		case 6:
			if inMsg {
				continue
			}
			it.B0, it.Reason = byte(r.Pick([]int{0x80, 0x00})), "continuation-without-message"
		case 7:
			if !inMsg {
				continue
			}
			it.B0, it.Reason = byte(r.Pick([]int{0x80, 0x00}))|dataOp, "data-inside-message"
		case 8:
			it.B0, it.Reason, it.FlipMask = fin|anyLegal, "wrong-mask", true
		case 9:
			code := badCloseCodes[r.Intn(len(badCloseCodes))]
			it.B0, it.Reason = fin|8, "close-code"
			it.Data = append([]byte{byte(code >> 8), byte(code)}, []byte(r.PickS([]string{"", "x", "reason"}))...)
		case 10:
			it.B0, it.Reason = fin|8, "close-utf8"
			it.Data = append([]byte{0x03, 0xe8}, r.PickS([]string{"\xff", "ab\xc3", "\xed\xa0\x80", "ok\x80"})...)
		case 13:
			// one frame that breaks several rules at once (every rule it breaks is a 1002 rule)
			it.Reason = "several-at-once"
			it.B0 = 0x20 | 0x10 | byte(r.Pick([]int{8, 9, 10, 3, 11})) // RSV2, RSV3, control or reserved opcode
			if !comp || r.Bool() {
				it.B0 |= 0x40
			}
			if r.Chance(1, 4) {
				it.B0 |= fin
			}
			it.FlipMask = r.Chance(3, 4)
			if r.Chance(3, 4) {
				it.LenCode = 126
				it.Claimed = uint64(r.Pick([]int{126, 200, 1000}))
				it.Pay = Payload{Len: r.Pick([]int{0, 10, 126}), Seed: 5}
			}
		case 11, 12:
			it.B0, it.Reason = fin|natural, "length-topbit"
			if r.Chance(1, 3) {
				it.B0 = natural
			}
			it.LenCode = 127
			it.Claimed = 1<<63 | (r.Uint64() >> uint(r.Range(1, 62)))
			if r.Chance(1, 3) {
				it.Claimed = ^uint64(0) - uint64(r.Range(0, 40)) // -1 .. -41 as a signed value
			}
			if inMsg && len(openLen) > 0 && openLen[0] > 0 && r.Chance(1, 2) {
				// a "negative" length no larger in magnitude than what the open message already holds
				it.Claimed = ^uint64(0) - uint64(r.Range(0, openLen[0]-1))
			}
			it.Pay = Payload{Len: r.Pick([]int{0, 0, 8, 200}), Seed: 3}
		}
		break
	}
	return it
}

func genC04(r *PRNG, tier string) *Scenario {
	scn := &Scenario{Prop: "C04", Class: "violation", Seed: r.Uint64() >> 1, Sched: genSched(r)}
	realIsServer := r.Bool()
	comp := r.Chance(1, 3)
	end := &EndCfg{ReadBuf: genBuf(r), WriteBuf: genWBuf(r, 125), Compression: comp, Handlers: r.PickS([]string{"observe", "observe", "default"})}
	var script []SItem
	npre := r.Range(0, 4)
	inMsg := false
	for i := 0; i < npre; i++ {
		it := genScriptMsg(r, comp, false, true)
		if it.Comp-1 == 4 {
			it.Comp = 1 // BFINAL form: see C05
		}
		if it.Pay.Len > 5000 {
			it.Pay.Len = r.Range(0, 5000)
		}
		if i == npre-1 && r.Chance(1, 2) {
			it.Open = true
			inMsg = true
			// controls after the last fragment of an open message are inside it
		}
		script = append(script, it)
		if !it.Open && r.Chance(1, 5) {
			d := make([]byte, r.Range(0, 125))
			r.Fill(d)
			script = append(script, SItem{Kind: "ctl", Op: r.Pick([]int{9, 10}), Data: d})
		}
	}
	openLen := 0
	if inMsg {
		openLen = script[len(script)-1].Pay.Len
		if script[len(script)-1].Comp > 0 {
			openLen = 0
		}
	}
	if r.Chance(1, 4) {
		// the peer idles before it misbehaves: the 1002 reply is due whenever the violation arrives
		script = append(script, SItem{Kind: "pause", PauseMs: int64(r.Pick([]int{1100, 2500, 4500}))})
	}
	script = append(script, genViolation(r, comp, inMsg, openLen))
	// valid traffic after the violation: none of it may be processed
	for i := r.Range(0, 3); i > 0; i-- {
		if r.Bool() {
			script = append(script, SItem{Kind: "ctl", Op: r.Pick([]int{9, 10}), Data: []byte("after")})
		} else {
			script = append(script, SItem{Kind: "msg", MT: 2, Pay: Payload{Len: r.Range(0, 300), Seed: 4}})
		}
	}
	l := Link{Script: script, ScriptChunk: r.Pick([]int{0, 0, 1, 100})}
	task := TaskCfg{Kind: "reader", R: genReadProg(r, r.PickS([]string{"", "", "noabandon"})), ExtraReads: r.Pick([]int{1, 3, 900})}
	if realIsServer {
		end.Server = r.PickS([]string{"mini", "mini", "nethttp"})
		l.Server = end
		l.STasks = []TaskCfg{task}
	} else {
		l.Client = end
		l.CTasks = []TaskCfg{task}
	}
	scn.Links = []Link{l}
	scn.Net = NetCfg{DefCap: genCap(r)}
	if r.Chance(1, 6) {
		// the write side is broken (first write fails): no reply can be sent, the read side must behave the same
		scn.Class = "violation-write-side-broken"
		f := OpFault{Side: "w", AfterHead: true, K: r.Range(0, 1), Kind: r.Pick([]int{fErr, fTimeout, fShort}), N: 1}
		if realIsServer {
			scn.Net.Conns = []ConnCfg{{FaultsB: []OpFault{f}}}
		} else {
			f.K++
			scn.Net.Conns = []ConnCfg{{FaultsA: []OpFault{f}}}
		}
		return scn
	}
	if r.Chance(1, 4) {
		// contended class: a controller is stalled inside the transport (holding the write
		// lock) when the violation arrives, so the 1002 is best effort
		scn.Class = "violation-contended"
		ctl := TaskCfg{Kind: "ctl", W: []WOp{{Kind: "ctl", MT: 9, Pay: Payload{Len: 20, Seed: 77}, DlMs: 0}}}
		dir := "ab"
		if realIsServer {
			dir = "ba"
		}
		dur := int64(r.Pick([]int{200, 600, 5000, -1}))
		scn.Net.Conns = []ConnCfg{{Stalls: []Stall{{Dir: dir, Side: "w", At: 0, DurMs: dur}}}}
		lk := &scn.Links[0]
		if realIsServer {
			lk.STasks = append(lk.STasks, ctl)
		} else {
			lk.CTasks = append(lk.CTasks, ctl)
		}
		// the peer holds its frames back until the controller is inside the transport
		lk.Script = append([]SItem{{Kind: "pause", PauseMs: 50}}, lk.Script...)
		scn.Sched.IdleHorizon = 20000
	}
	return scn
}

func oracleC04(run *Run) {
	commonChecks(run)
	for _, p := range run.Panics {
		run.fail("C04", "panic", "panic", "%s", p)
	}
	l := &run.Scn.Links[0]
	e := realOfLink(run, 0)
	if e == nil {
		if run.Scn.Class != "violation-write-side-broken" {
			run.fail("HARNESS", "no-connection", "hs", "handshake failed")
		}
		return
	}
	_, exps := ExpandScript(l.Script, e.IsServer, run.Scn.Seed)
	vclass := ""
	var ctlBefore []Exp
	for _, x := range exps {
		if x.Violation != "" {
			vclass = x.Violation
			break
		}
		if x.Control {
			ctlBefore = append(ctlBefore, x)
		}
	}
	if vclass == "" {
		return // shrunk away
	}
	want, ncomplete := expectedWithPartial(exps)
	rt := findTask(e, "reader")
	obs, _ := observations(rt)
	who := fmt.Sprintf("reader(server=%v)", e.IsServer)
	matched, errAt := checkDelivery(run, "C04", who, want, obs, "")
	if rt == nil || !rt.Finished {
		run.fail("C04", "reader-stuck", vclass, "%s: the read program did not finish after the %s frame", who, vclass)
		return
	}
	run.Obligations += matched + 1
	if matched < ncomplete {
		run.fail("C04", "completed-not-delivered", vclass, "%s: %d messages were complete before the violating frame (%s) but %d were delivered", who, ncomplete, vclass, matched)
	}
	// the read that reaches the frame fails
	if errAt == len(obs) {
		run.fail("C04", "violation-accepted", vclass, "%s: a %s frame was received but the read API reported no error", who, vclass)
		return
	}
	o := obs[errAt]
	if o.Kind == "msg" && (o.Err == "" || o.Err == "EOF") {
		run.fail("C04", "violation-accepted", vclass, "%s: a %s frame arrived inside a message but its reader returned %q", who, vclass, o.Err)
	}
	if len(o.Err) > 10 && o.Err[:10] == "CloseError" && o.Err != "CloseError:1006" {
		run.fail("C04", "violation-accepted", vclass+"/as-close", "%s: a %s frame was reported as a received close (%s)", who, vclass, o.Err)
	}
	checkSticky(run, "C04", who, rt)
	// handlers: exactly the control frames before the violation, in order, once each
	if e.Cfg.Handlers == "observe" {
		// when the program abandons messages, controls are still handled (NextReader skips frames)
		n := len(e.Handlers)
		if n > len(ctlBefore) {
			hc := e.Handlers[len(ctlBefore)]
			run.fail("C04", "handler-after-violation", vclass, "%s: handler for opcode %d (payload %q) ran although only %d control frames precede the %s frame", who, hc.Op, hc.Data, len(ctlBefore), vclass)
		} else if n < len(ctlBefore) {
			run.fail("C04", "handler-missing", vclass, "%s: %d control frames precede the violating frame but %d handler calls were made", who, len(ctlBefore), n)
		}
		for i := 0; i < n && i < len(ctlBefore); i++ {
			if e.Handlers[i].Op != ctlBefore[i].Op || e.Handlers[i].Data != string(ctlBefore[i].Payload) {
				run.fail("C04", "handler-wrong", vclass, "%s: handler call %d got opcode %d %q, wire has opcode %d %q", who, i, e.Handlers[i].Op, e.Handlers[i].Data, ctlBefore[i].Op, ctlBefore[i].Payload)
				break
			}
		}
	}
	if run.Scn.Class == "violation-write-side-broken" {
		return // what is on the wire after a failed write is C10's matter
	}
	// the wire: a close 1002 is the last thing written (not required for the top-bit case)
	tv := decodeTap(wsTap(e), !e.IsServer, e.Negotiated)
	if tv.V != nil {
		run.fail("C04", "malformed-wire", tv.V.Rule, "%s wrote a malformed stream: %s", who, tv.V.Error())
		return
	}
	closeAt := -1
	for i, it := range tv.Items {
		if it.Control && it.Opcode == wsframe.OpClose {
			closeAt = i
			if it.CloseCode != 1002 {
				run.fail("C04", "wrong-close-code", vclass, "%s: close frame with status %d was sent after a %s frame, expected 1002", who, it.CloseCode, vclass)
			}
			break
		}
	}
	contended := run.Scn.Class == "violation-contended"
	must1002 := vclass != "length-topbit" && run.Scn.Class != "violation-write-side-broken"
	if contended {
		// the reply is best effort: required only if the write lock became free within the second
		st := run.Scn.Net.Conns[0].Stalls[0]
		must1002 = must1002 && st.DurMs >= 0 && st.DurMs < 900
		// the read must not wait for the lock longer than that second
		calls := e.Net.Calls()
		var lastRead int64
		rec := obs[errAt].Rec
		for _, c := range calls {
			if c.Op == 'R' && c.Step <= rec.Return && c.N > 0 {
				lastRead = c.T
			}
		}
		// every ping before the violation may cost one best-effort second as well
		npings := int64(0)
		for _, x := range ctlBefore {
			if x.Op == wsframe.OpPing {
				npings++
			}
		}
		if rec.TReturn > lastRead+(npings+1)*1e9 {
			run.fail("C04", "read-blocked-behind-write", "contended", "%s: the last bytes of the violating frame arrived at t=%d ms (%d pings before it) but the read returned at t=%d ms: it waited longer than the best-effort second per reply for the write lock", who, lastRead/1e6, npings, rec.TReturn/1e6)
		}
	}
	if closeAt < 0 && must1002 {
		run.fail("C04", "no-1002", vclass, "%s: no close frame was sent after a %s frame", who, vclass)
	}
	if closeAt >= 0 && (closeAt != len(tv.Items)-1 || tv.Tail != len(tv.Raw)) {
		run.fail("C04", "written-after-close", vclass, "%s: bytes were written after the close frame", who)
	}
	// pongs on the wire only for pings before the violation
	pongs := 0
	for _, it := range tv.Items {
		if it.Control && it.Opcode == wsframe.OpPong {
			pongs++
		}
	}
	pings := 0
	for _, x := range ctlBefore {
		if x.Op == wsframe.OpPing {
			pings++
		}
	}
	if pongs > pings {
		run.fail("C04", "reply-after-violation", vclass, "%s: %d pongs were written but only %d pings precede the violating frame", who, pongs, pings)
	}
}
