package wsim

import "fmt"

// C05 — no silent truncation: a transport fault yields whole messages, then an error.

func init() {
	register(&PropDef{ID: "C05", Num: 5, Gen: genC05, Oracle: oracleC05, Level: "fault_enumeration", Sweep: sweepC05, SweepN: 96})
}

var cutStyles = []int{fEOF, fEOFBytes, fErr, fErrBytes, fTimeout, fTimeoutBytes}

// genC05 draws a conformant script and one read-side cut. In the thorough
// tier successive runs of a worker sweep the offsets of one script: the
// script is drawn from (seed / sweep) and the offset from the remainder.
func genC05(r *PRNG, tier string) *Scenario {
	scn := &Scenario{Prop: "C05", Class: "cut", Seed: r.Uint64() >> 1, Sched: genSched(r)}
	realIsServer := r.Bool()
	comp := r.Chance(1, 3)
	end := &EndCfg{ReadBuf: genBuf(r), WriteBuf: genWBuf(r, 125), Compression: comp}
	nmsg := r.Range(1, 5)
	var script []SItem
	for i := 0; i < nmsg; i++ {
		it := genScriptMsg(r, comp, false, true)
		if it.Comp-1 == 4 {
			// The BFINAL form (RFC 7692 7.2.3.4) ends the deflate stream one padding
			// byte before the end of the frame: a reader that reports the message
			// complete without that byte has delivered the whole message. Left to C03.
			it.Comp = 1
		}
		if it.Pay.Len > 6000 {
			it.Pay.Len = r.Range(0, 6000)
		}
		script = append(script, it)
	}
	if r.Chance(1, 2) {
		script = append(script, SItem{Kind: "ctl", Op: 8, Code: 1000})
	}
	l := Link{Script: script, ScriptChunk: r.Pick([]int{0, 0, 0, 1, 100})}
	// read program: large reads make bufio pass reads straight through to the transport
	rp := genReadProg(r, r.PickS([]string{"", "", "noabandon", "join"}))
	if r.Chance(1, 3) {
		rp = []ROp{{Kind: "nr", Sizes: []int{r.Pick([]int{4096, 8192, 65536, 70000})}}}
	}
	task := TaskCfg{Kind: "reader", R: rp, ExtraReads: r.Pick([]int{1, 2, 5, 990})}
	if realIsServer {
		end.Server = r.PickS([]string{"mini", "mini", "nethttp"})
		l.Server = end
		l.STasks = []TaskCfg{task}
	} else {
		l.Client = end
		l.CTasks = []TaskCfg{task}
	}
	scn.Links = []Link{l}
	// the cut: an offset inside (or at the end of) the frame bytes
	segs, exps := ExpandScript(script, realIsServer, scn.Seed)
	total := 0
	for _, s := range segs {
		total += len(s.Data)
	}
	var off int
	switch r.Intn(4) {
	case 0: // on or next to a frame boundary
		var bounds []int
		for _, x := range exps {
			bounds = append(bounds, x.StartOff, x.EndOff)
			bounds = append(bounds, x.FragEnds...)
			bounds = append(bounds, x.FragHdrEnds...)
		}
		off = bounds[r.Intn(len(bounds))] + r.Range(-2, 2)
	default:
		off = r.Range(0, total)
	}
	if off < 0 {
		off = 0
	}
	if off > total {
		off = total
	}
	dir := "ab"
	if !realIsServer {
		dir = "ba"
	}
	cut := Cut{Dir: dir, Offset: int64(off), Style: cutStyles[r.Intn(len(cutStyles))]}
	if cut.Style == fErr || cut.Style == fErrBytes {
		cut.ErrKind = r.PickS([]string{"", "", "ueof", "ueof", "closedpipe", "netclosed"})
	}
	if cut.Style == fTimeout && r.Chance(1, 2) {
		// a read deadline that expired once and was then extended: the rest of the stream
		// arrives afterwards, but the connection must stay failed
		cut.Transient = true
		scn.Class = "cut-transient-timeout"
	}
	scn.Net = NetCfg{DefCap: r.Pick([]int{64, 4096, 65536, 1 << 20}), Conns: []ConnCfg{{Cuts: []Cut{cut}}}}
	return scn
}

func oracleC05(run *Run) {
	commonChecks(run)
	for _, p := range run.Panics {
		run.fail("C05", "panic", "panic", "%s", p)
	}
	l := &run.Scn.Links[0]
	e := realOfLink(run, 0)
	if e == nil {
		return // the cut hit the handshake; nothing to judge here (C16's matter)
	}
	_, exps := ExpandScript(l.Script, e.IsServer, run.Scn.Seed)
	if len(run.Scn.Net.Conns) == 0 || len(run.Scn.Net.Conns[0].Cuts) == 0 {
		return
	}
	cut := run.Scn.Net.Conns[0].Cuts[0]
	k := int(cut.Offset)
	// bytes that arrived together with the error may go either way
	nFinal := 0
	fired := false
	for _, c := range e.Net.Calls() {
		if c.Op == 'R' && int(c.Fault) == cut.Style {
			nFinal = int(c.N)
			fired = true
			break
		}
	}
	if cut.Transient {
		// a transient timeout that fired while net/http (or the handshake) was reading is absorbed
		// there and is not this property's matter: judge only faults seen by a websocket read call
		seen := false
		if rt := findTask(e, "reader"); rt != nil {
			for _, c := range e.Net.Calls() {
				if c.Op == 'R' && int(c.Fault) == cut.Style {
					for _, r := range rt.Hist {
						if r.Invoke <= c.Step && c.Step <= r.Return {
							seen = true
						}
					}
					break
				}
			}
		}
		if !seen {
			return
		}
	}
	kStrict := k - nFinal
	var want []Msg
	var ends []int
	for _, x := range exps {
		if !x.Control && x.Complete {
			want = append(want, Msg{MT: x.Op, Payload: x.Payload})
			ends = append(ends, x.EndOff)
		}
	}
	rt := findTask(e, "reader")
	obs, _ := observations(rt)
	who := fmt.Sprintf("reader(server=%v)", e.IsServer)
	term := ""
	for _, o := range obs {
		if o.Kind == "join" {
			term = o.Rec.Note
		}
	}
	_, errAt := checkDelivery(run, "C05", who, want, obs, term)
	styleName := faultNames[cut.Style]
	where := cutWhere(exps, k)
	// (i) nothing beyond the cut is reported complete
	idx := 0
	completeN := 0
	for _, o := range obs {
		if o.Kind != "msg" {
			break
		}
		if o.Complete {
			completeN = idx + 1
			if idx < len(ends) && ends[idx] > k {
				run.fail("C05", "partial-reported-complete", styleName+"@"+where,
					"%s: message %d ends at stream offset %d but the transport ended at offset %d (%s); the read API nevertheless reported it complete with %d of %d bytes",
					who, idx, ends[idx], k, styleName, len(o.Data), len(want[idx].Payload))
			}
		}
		if !o.Complete && !o.Abandoned {
			// (iii) the straddling message's reader must fail with something other than io.EOF
			if o.Err == "" || o.Err == "EOF" {
				run.fail("C05", "partial-no-error", styleName+"@"+where, "%s: message %d is incomplete but its reader returned %q", who, idx, o.Err)
			}
			break
		}
		idx++
	}
	if rt == nil || !rt.Finished {
		run.fail("C05", "reader-stuck", "stuck", "%s: the read program did not finish after the transport fault (%s at %d)", who, styleName, k)
		return
	}
	// (ii) everything that had fully arrived before the failing read is reported
	mustHave := 0
	for _, end := range ends {
		if end <= kStrict {
			mustHave++
		}
	}
	seen := 0
	for _, o := range obs {
		if o.Kind == "msg" && (o.Complete || o.Abandoned) {
			seen++
		} else if o.Kind == "join" {
			n := 0
			for j := range want {
				n += len(want[j].Payload) + len(term)
				if n <= len(o.Data) {
					seen++
				}
			}
		}
	}
	if fired && seen < mustHave {
		run.fail("C05", "arrived-not-reported", styleName+"@"+where,
			"%s: %d messages had completely arrived before the failing transport read (cut at %d, %d bytes came with the error) but only %d were delivered", who, mustHave, k, nFinal, seen)
	}
	run.Obligations += seen + 1
	_ = completeN
	// an error must follow
	if fired && errAt == len(obs) {
		run.fail("C05", "no-error-after-fault", styleName, "%s: the transport failed (%s at %d) but the read program saw no error", who, styleName, k)
	}
	// (iv) NextReader errors are sticky and identical
	checkSticky(run, "C05", who, rt)
	// one root cause, one report: the offset-based rule subsumes the payload comparison
	hasPartial := false
	for _, f := range run.Findings {
		if f.Rule == "partial-reported-complete" {
			hasPartial = true
		}
	}
	if hasPartial {
		k := 0
		for _, f := range run.Findings {
			if f.Rule != "truncated-reported-complete" {
				run.Findings[k] = f
				k++
			}
		}
		run.Findings = run.Findings[:k]
	}
}

// cutWhere names the place of a stream offset relative to the script's frames.
func cutWhere(exps []Exp, k int) string {
	for _, x := range exps {
		if k < x.StartOff || k > x.EndOff {
			continue
		}
		if x.Control {
			if k == x.EndOff {
				return "control-frame-end"
			}
			if k == x.StartOff {
				return "frame-start"
			}
			return "inside-control-frame"
		}
		for i, fe := range x.FragEnds {
			he := x.FragHdrEnds[i]
			start := x.StartOff
			if i > 0 {
				start = x.FragEnds[i-1]
			}
			if k < start || k > fe {
				continue
			}
			last := i == len(x.FragEnds)-1
			switch {
			case k == fe && last && x.Complete:
				return "final-frame-end"
			case k == fe:
				return "non-final-frame-end"
			case k == start:
				return "frame-start"
			case k < he:
				return "inside-header"
			default:
				return "inside-payload"
			}
		}
	}
	return "between-frames"
}

// checkSticky: once NextReader has returned an error, every later call
// returns the identical error and no reader.
func checkSticky(run *Run, prop, who string, rt *Task) {
	if rt == nil {
		return
	}
	var first *OpRec
	n := 0
	for _, r := range rt.Hist {
		if r.Op != "NextReader" && r.Op != "ReadMessage" {
			continue
		}
		if r.Op == "ReadMessage" && r.MsgType != -1 {
			continue
		}
		if r.Err == "" {
			if first != nil {
				run.fail(prop, "error-not-sticky", "recovered", "%s: NextReader succeeded after it had returned %s", who, first.ErrText)
			}
			continue
		}
		if first == nil {
			first = r
			continue
		}
		n++
		if !sameError(r.errVal, first.errVal) {
			run.fail(prop, "error-not-sticky", "different-error", "%s: NextReader returned %q and later %q", who, first.ErrText, r.ErrText)
			return
		}
		if r.MsgType != -1 || r.Note == "extra reader-non-nil" {
			run.fail(prop, "error-not-sticky", "delivered-after-error", "%s: NextReader returned a reader or message type together with an error", who)
			return
		}
	}
	run.Obligations += n
}

// sweepC05: one script and read program per 96 runs; run k cuts it at the
// k-th position of the list {every frame start, header end and frame end, each
// -1/0/+1} (then uniformly spread offsets) in style k mod 6.
func sweepC05(r *PRNG, k, S int) *Scenario {
	scn := genC05(r, "thorough")
	scn.Class = "cut-sweep"
	l := &scn.Links[0]
	realIsServer := l.Server != nil
	segs, exps := ExpandScript(l.Script, realIsServer, scn.Seed)
	total := 0
	for _, s := range segs {
		total += len(s.Data)
	}
	var pos []int
	seen := map[int]bool{}
	add := func(v int) {
		if v >= 0 && v <= total && !seen[v] {
			seen[v] = true
			pos = append(pos, v)
		}
	}
	for _, x := range exps {
		for _, b := range append(append([]int{x.StartOff, x.EndOff}, x.FragEnds...), x.FragHdrEnds...) {
			add(b)
			add(b - 1)
			add(b + 1)
		}
	}
	off := 0
	if k/6 < len(pos) {
		off = pos[k/6]
	} else if total > 0 {
		off = (k * 7919) % (total + 1)
	}
	c := &scn.Net.Conns[0].Cuts[0]
	c.Offset = int64(off)
	c.Style = cutStyles[k%6]
	c.ErrKind = ""
	if c.Style == fErr || c.Style == fErrBytes {
		c.ErrKind = []string{"", "ueof", "closedpipe", "netclosed"}[(k/6)%4]
	}
	// only a plain timeout (a deadline that expired and was extended) is ever transient; see DESIGN 14.1
	c.Transient = c.Style == fTimeout && k%12 < 6
	return scn
}

// sameError: identical value, or the same dynamic type with the same text (a
// library may wrap or rebuild an equal error value on every call).
func sameError(a, b error) bool {
	if a == b {
		return true
	}
	if a == nil || b == nil {
		return false
	}
	return fmt.Sprintf("%T", a) == fmt.Sprintf("%T", b) && a.Error() == b.Error()
}
