package wsim

import (
	"errors"
	"fmt"

	"github.com/gorilla/websocket"
	"wsim/wsframe"
)

// C06 — read limit is exact, history-independent and bounds memory.

func init() {
	register(&PropDef{ID: "C06", Num: 6, Gen: genC06, Oracle: oracleC06, Level: "exploration"})
}

// fragsCrossing splits n wire bytes into fragments (sizes may be 0).
func genFrags(r *PRNG, n int) []int {
	var fr []int
	rem := n
	for k := r.Pick([]int{0, 0, 1, 2, 4}); k > 0; k-- {
		s := r.Range(0, rem)
		if r.Chance(1, 4) {
			s = 0
		}
		if r.Chance(1, 4) && rem > 0 {
			s = 1
		}
		fr = append(fr, s)
		rem -= s
	}
	return fr
}

func genC06(r *PRNG, tier string) *Scenario {
	scn := &Scenario{Prop: "C06", Class: "limit", Seed: r.Uint64() >> 1, Sched: genSched(r)}
	realIsServer := r.Bool()
	if r.Chance(1, 8) {
		return genC06BigLimit(r, scn, realIsServer)
	}
	if r.Chance(1, 6) {
		return genC06Changed(r, scn, realIsServer)
	}
	L := r.Pick([]int{1, 2, 10, 125, 126, 512, r.Range(1, 5000)})
	end := &EndCfg{ReadBuf: genBuf(r), WriteBuf: genWBuf(r, 125), ReadLimit: int64(L)}
	var script []SItem
	var rops []ROp
	// history: messages within the limit, read fully, partly or not at all
	nh := r.Range(0, 3)
	for i := 0; i < nh; i++ {
		n := r.Pick([]int{0, 1, L - 1, L, r.Range(0, L)})
		if n < 0 {
			n = 0
		}
		mt := r.Range(1, 2)
		it := SItem{Kind: "msg", MT: mt, Pay: Payload{Len: n, Kind: genKind(r, mt), Seed: r.Uint64() >> 1}, Frags: genFrags(r, n)}
		for k := r.Pick([]int{0, 0, 1, 2}); k > 0; k-- {
			it.Ctls = append(it.Ctls, CtlAt{After: r.Range(-1, len(it.Frags)), Op: r.Pick([]int{9, 10}), Data: genCtlData(r)})
		}
		script = append(script, it)
		switch r.Intn(4) {
		case 0:
			rops = append(rops, ROp{Kind: "rm"})
		case 1:
			rops = append(rops, ROp{Kind: "nr", Sizes: genSizes(r, true)})
		case 2:
			rops = append(rops, ROp{Kind: "nr", Sizes: genSizes(r, false), Abandon: r.Pick([]int{1, 2, L / 2, L - 1})})
			if rops[len(rops)-1].Abandon <= 0 {
				rops[len(rops)-1].Abandon = -1
			}
		default:
			rops = append(rops, ROp{Kind: "nr", Abandon: -1})
		}
	}
	// the target message
	if r.Chance(1, 5) {
		// the peer idles first: the 1009 reply is due whenever the oversized message arrives
		script = append(script, SItem{Kind: "pause", PauseMs: int64(r.Pick([]int{1100, 2500, 4500}))})
	}
	mt := r.Range(1, 2)
	switch r.Intn(6) {
	case 0, 1: // within the limit: must be readable in full
		n := r.Pick([]int{L, L, L - 1})
		if n < 0 {
			n = 0
		}
		it := SItem{Kind: "msg", MT: mt, Pay: Payload{Len: n, Kind: genKind(r, mt), Seed: r.Uint64() >> 1}, Frags: genFrags(r, n)}
		script = append(script, it)
		scn.Note = "within"
		script = append(script, SItem{Kind: "ctl", Op: 8, Code: 1000})
	case 2, 3, 4: // over the limit; the peer stalls right after the header of the crossing frame
		n := L + r.Pick([]int{1, 1, 2, 100, r.Range(1, 3000)})
		it := SItem{Kind: "msg", MT: mt, Pay: Payload{Len: n, Kind: genKind(r, mt), Seed: r.Uint64() >> 1}, Frags: genFrags(r, n)}
		// which fragment crosses the limit?
		sum, cross := 0, -1
		sizes := append([]int{}, it.Frags...)
		rest := n
		for _, s := range sizes {
			if s > rest {
				s = rest
			}
			rest -= s
		}
		sizes = append(sizes, rest)
		for i, s := range sizes {
			sum += s
			if sum > L {
				cross = i
				break
			}
		}
		it.StallAtFrag = cross + 1
		for k := r.Pick([]int{0, 0, 1}); k > 0; k-- {
			it.Ctls = append(it.Ctls, CtlAt{After: r.Range(-1, cross-1), Op: r.Pick([]int{9, 10}), Data: genCtlData(r)})
		}
		script = append(script, it)
		scn.Note = "over"
	default: // a header claiming an enormous length
		claimed := []uint64{1 << 20, 1 << 31, 1<<32 + 5, 1 << 40, 1 << 62, 1<<63 - 1, 1 << 63, 1<<63 | 12345, ^uint64(0)}[r.Intn(9)]
		pre := 0
		if r.Bool() {
			// a first fragment within the limit, so that the running sum matters (and may overflow)
			pre = r.Range(0, L)
			script = append(script, SItem{Kind: "msg", MT: mt, Pay: Payload{Len: pre, Seed: 1}, Open: true})
		}
		b0 := byte(0x80 | mt)
		if pre > 0 || (len(script) > 0 && script[len(script)-1].Open) {
			b0 = 0x80
		}
		script = append(script, SItem{Kind: "raw", B0: b0, LenCode: 127, Claimed: claimed, Pay: Payload{Len: r.Pick([]int{0, 0, 16}), Seed: 2}, Reason: "huge"})
		script = append(script, SItem{Kind: "pause", PauseMs: -1})
		scn.Note = "huge"
	}
	rops = append(rops, ROp{Kind: r.PickS([]string{"rm", "nr"}), Sizes: genSizes(r, false)})
	l := Link{Script: script, ScriptChunk: r.Pick([]int{0, 0, 1, 100})}
	task := TaskCfg{Kind: "reader", R: rops, ExtraReads: 2}
	if realIsServer {
		end.Server = r.PickS([]string{"mini", "mini", "nethttp"})
		l.Server = end
		l.STasks = []TaskCfg{task}
	} else {
		l.Client = end
		l.CTasks = []TaskCfg{task}
	}
	scn.Links = []Link{l}
	scn.Net = NetCfg{DefCap: genCap(r)}
	scn.Sched.IdleHorizon = 5000
	if scn.Note != "within" && r.Chance(1, 4) {
		// the write side is broken when the limit is crossed (the 1009 cannot be sent):
		// the read must still fail with ErrReadLimit
		scn.Class = "limit-write-side-broken"
		f := OpFault{Side: "w", AfterHead: true, K: r.Range(0, 1), Kind: r.Pick([]int{fErr, fTimeout, fShort}), N: 1}
		if realIsServer {
			scn.Net.Conns = []ConnCfg{{FaultsB: []OpFault{f}}}
		} else {
			f.K++
			scn.Net.Conns = []ConnCfg{{FaultsA: []OpFault{f}}}
		}
		// no pings before the oversized message: the fault must land on the 1009
		for i := range scn.Links[0].Script {
			scn.Links[0].Script[i].Ctls = nil
		}
	}
	return scn
}

func oracleC06(run *Run) {
	commonChecks(run)
	for _, p := range run.Panics {
		run.fail("C06", "panic", "panic", "%s", p)
	}
	l := &run.Scn.Links[0]
	e := realOfLink(run, 0)
	if e == nil {
		if run.Scn.Class != "limit-write-side-broken" {
			run.fail("HARNESS", "no-connection", "hs", "handshake failed")
		}
		return
	}
	L := int(e.Cfg.ReadLimit)
	_, exps := ExpandScript(l.Script, e.IsServer, run.Scn.Seed)
	who := fmt.Sprintf("reader(server=%v,limit=%d)", e.IsServer, L)
	rt := findTask(e, "reader")
	obs, _ := observations(rt)
	if run.Scn.Class == "big-limit" {
		oracleC06Big(run, e, rt, obs, who)
		return
	}
	if run.Scn.Class == "limit-changed" {
		oracleC06Changed(run, e, rt, obs, exps)
		return
	}
	// the verdict is derived from the script itself (a shrunk scenario may have lost its target)
	kind := "within"
	for _, it := range l.Script {
		if it.Kind == "msg" && it.StallAtFrag > 0 {
			kind = "over"
		}
		if it.Kind == "raw" && it.Reason == "huge" {
			kind = "huge"
		}
	}
	// history + (for "within") the target: all complete messages of the script
	want, ncomplete := expectedWithPartial(exps)
	// history classes for the signature
	hist := "no-history"
	for _, op := range rt0(run).R[:max(0, len(rt0(run).R)-1)] {
		if op.Abandon != 0 {
			hist = "after-abandoned-message"
		} else if hist == "no-history" {
			hist = "after-read-messages"
		}
	}
	matched, errAt := checkDelivery(run, "C06", who, want, obs, "")
	if rt == nil || !rt.Finished {
		if kind == "within" {
			run.fail("C06", "reader-stuck", kind, "%s: the read program did not finish", who)
		} else {
			run.fail("C06", "waits-for-payload", kind, "%s: the peer sent the header of a frame that crosses the limit and then stalled; the read call did not return (it waits for payload it must refuse)", who)
		}
		return
	}
	run.Obligations += matched + 1
	switch kind {
	case "within":
		if matched != ncomplete {
			detail := ""
			if errAt < len(obs) {
				detail = obs[errAt].Err + ": " + obs[errAt].ErrText
			}
			run.fail("C06", "within-limit-refused", hist, "%s: message %d of %d (all within the limit) could not be read in full: %s", who, matched, len(want), detail)
		}
	case "over", "huge":
		if matched < ncomplete {
			run.fail("C06", "within-limit-refused", hist, "%s: only %d of the %d within-limit messages that precede the oversized one were delivered", who, matched, ncomplete)
			return
		}
		if errAt == len(obs) {
			run.fail("C06", "over-limit-accepted", kind, "%s: a message larger than the limit produced no error", who)
			return
		}
		o := obs[errAt]
		if !errors.Is(o.ErrVal, websocket.ErrReadLimit) {
			run.fail("C06", "wrong-error", kind, "%s: reading a message larger than the limit returned %q, expected ErrReadLimit", who, o.ErrText)
		}
		if o.Kind == "msg" && len(o.Data) > L {
			run.fail("C06", "delivered-beyond-limit", kind, "%s: %d bytes of an oversized message were delivered (limit %d)", who, len(o.Data), L)
		}
		// close 1009 on the wire, last thing written (lenient for top-bit / overflowing sums)
		tv := decodeTap(wsTap(e), !e.IsServer, e.Negotiated)
		if tv.V != nil {
			run.fail("C06", "malformed-wire", tv.V.Rule, "%s wrote a malformed stream: %s", who, tv.V.Error())
			return
		}
		found := false
		for i, it := range tv.Items {
			if it.Control && it.Opcode == wsframe.OpClose {
				found = true
				if it.CloseCode != 1009 {
					run.fail("C06", "wrong-close-code", kind, "%s: close %d sent for an oversized message, expected 1009", who, it.CloseCode)
				}
				if i != len(tv.Items)-1 {
					run.fail("C06", "written-after-close", kind, "%s: frames written after the close", who)
				}
			}
		}
		lenient := false
		if kind == "huge" {
			for _, it := range l.Script {
				if it.Kind == "raw" && (it.Claimed>>63 != 0 || overflows(l.Script, it.Claimed)) {
					lenient = true
				}
			}
		}
		if run.Scn.Class == "limit-write-side-broken" {
			lenient = true // the close could not be written
		}
		if !found && !lenient {
			run.fail("C06", "no-1009", kind, "%s: no close frame 1009 was sent for an oversized message", who)
		}
	}
	checkSticky(run, "C06", who, rt)
	// memory used to receive a frame never depends on the length its header claims
	if run.AllocBytes > 0 {
		received := uint64(e.Net.BytesRead())
		limit := uint64(6<<20) + 4096*received + 512*run.Stats.Steps
		if run.AllocBytes > limit {
			run.fail("C06", "allocation-by-claimed-length", kind, "%s: the run allocated %d bytes after receiving %d bytes (bound %d = 6 MiB + 4096 per byte received + 512 per scheduler step for the harness)", who, run.AllocBytes, received, limit)
		}
	}
}

// overflows: does the claimed length, added to the bytes of the open message before it, exceed 2^63-1?
func overflows(script []SItem, claimed uint64) bool {
	pre := uint64(0)
	for _, it := range script {
		if it.Kind == "msg" && it.Open {
			pre = uint64(it.Pay.Len)
		}
	}
	return claimed+pre > 1<<63-1
}

func rt0(run *Run) *TaskCfg {
	l := &run.Scn.Links[0]
	for _, ts := range [][]TaskCfg{l.CTasks, l.STasks} {
		for i := range ts {
			if ts[i].Kind == "reader" {
				return &ts[i]
			}
		}
	}
	return &TaskCfg{}
}

// genC06BigLimit: a generous limit and a header that claims (almost) all of it
// while only a few bytes ever arrive: memory must follow the bytes received,
// not the claim, whether the claim is within the limit or beyond it.
func genC06BigLimit(r *PRNG, scn *Scenario, realIsServer bool) *Scenario {
	scn.Class = "big-limit"
	L := int64(r.Pick([]int{16 << 20, 64 << 20, 256 << 20}))
	end := &EndCfg{ReadBuf: genBuf(r), WriteBuf: genWBuf(r, 125), ReadLimit: L}
	claimed := uint64(L) - uint64(r.Pick([]int{0, 1, 1000}))
	if r.Chance(1, 3) {
		claimed = uint64(L) + uint64(r.Pick([]int{1, 1 << 20}))
	}
	mt := r.Range(1, 2)
	script := []SItem{
		{Kind: "msg", MT: 2, Pay: Payload{Len: r.Range(0, 100), Seed: 1}},
		{Kind: "raw", B0: byte(0x80 | mt), LenCode: 127, Claimed: claimed, Pay: Payload{Len: r.Pick([]int{0, 3, 100}), Kind: "text", Seed: 2}, Reason: "huge"},
	}
	l := Link{Script: script, PeerClose: "fin"}
	task := TaskCfg{Kind: "reader", R: []ROp{{Kind: r.PickS([]string{"rm", "rm", "nr"}), Sizes: []int{4096}}}, ExtraReads: 1}
	if realIsServer {
		end.Server = r.PickS([]string{"mini", "nethttp"})
		l.Server = end
		l.STasks = []TaskCfg{task}
	} else {
		l.Client = end
		l.CTasks = []TaskCfg{task}
	}
	scn.Links = []Link{l}
	scn.Net = NetCfg{DefCap: 1 << 16}
	scn.Sched.IdleHorizon = 5000
	return scn
}

func oracleC06Big(run *Run, e *RealEnd, rt *Task, obs []Obs, who string) {
	if rt == nil || !rt.Finished {
		run.fail("C06", "reader-stuck", "big-limit", "%s: the read program did not finish although the peer closed", who)
		return
	}
	var claimed uint64
	for _, it := range run.Scn.Links[0].Script {
		if it.Kind == "raw" {
			claimed = it.Claimed
		}
	}
	if claimed == 0 {
		return
	}
	run.Obligations++
	over := claimed > uint64(e.Cfg.ReadLimit)
	// the last observation must be an error (the frame never completes); ErrReadLimit iff the claim exceeds the limit
	var last *Obs
	for i := range obs {
		if obs[i].Err != "" && obs[i].Err != "EOF" {
			last = &obs[i]
			break
		}
	}
	if last == nil {
		run.fail("C06", "over-limit-accepted", "big-limit", "%s: a frame claiming %d bytes (limit %d) of which almost nothing arrived produced no error", who, claimed, e.Cfg.ReadLimit)
	} else if over && !errors.Is(last.ErrVal, websocket.ErrReadLimit) {
		run.fail("C06", "wrong-error", "big-limit", "%s: a frame claiming %d bytes exceeds the limit %d but the error is %q", who, claimed, e.Cfg.ReadLimit, last.ErrText)
	} else if !over && errors.Is(last.ErrVal, websocket.ErrReadLimit) {
		run.fail("C06", "within-limit-refused", "big-limit", "%s: a frame claiming %d bytes is within the limit %d but was refused with ErrReadLimit", who, claimed, e.Cfg.ReadLimit)
	}
	if run.AllocBytes > 0 {
		received := uint64(e.Net.BytesRead())
		limit := uint64(6<<20) + 4096*received + 512*run.Stats.Steps
		if run.AllocBytes > limit {
			run.fail("C06", "allocation-by-claimed-length", "big-limit", "%s: a header claiming %d bytes (limit %d) made the run allocate %d bytes after receiving %d bytes (bound %d)", who, claimed, e.Cfg.ReadLimit, run.AllocBytes, received, limit)
		}
	}
}


// genC06Changed: the application changes the limit during the connection's
// life, between two messages or between two reads of one message. Verdicts are
// claimed only where every reading of the property agrees: a message no larger
// than the smaller of the limits in force while it arrives must be readable in
// full; a message larger than the larger of them can never be read in full
// (ErrReadLimit, no more bytes delivered than that larger limit, close 1009).
func genC06Changed(r *PRNG, scn *Scenario, realIsServer bool) *Scenario {
	scn.Class = "limit-changed"
	L1 := r.Pick([]int{2, 10, 100, 126, 512, r.Range(2, 3000)})
	L2 := r.Pick([]int{1, L1 / 2, L1 - 1, L1 + 1, 2 * L1, r.Range(1, 2*L1)})
	if L2 < 1 {
		L2 = 1
	}
	end := &EndCfg{ReadBuf: genBuf(r), WriteBuf: genWBuf(r, 125), ReadLimit: int64(L1)}
	lo, hi := min(L1, L2), max(L1, L2)
	var script []SItem
	var rops []ROp
	if r.Bool() {
		n := r.Range(0, lo)
		script = append(script, SItem{Kind: "msg", MT: 2, Pay: Payload{Len: n, Seed: r.Uint64() >> 1}, Frags: genFrags(r, n)})
		rops = append(rops, ROp{Kind: r.PickS([]string{"rm", "nr"}), Sizes: genSizes(r, false)})
	}
	mt := r.Range(1, 2)
	over := r.Chance(2, 3)
	if r.Bool() {
		// between two messages: the new limit alone governs the next message
		scn.Note = "between"
		rops = append(rops, ROp{Kind: "limit", NewLimit: int64(L2)})
		n := r.Pick([]int{L2, L2 - 1, r.Range(0, L2)})
		if over {
			n = L2 + r.Pick([]int{1, 2, 100, r.Range(1, 3000)})
		}
		if n < 0 {
			n = 0
		}
		script = append(script, SItem{Kind: "msg", MT: mt, Pay: Payload{Len: n, Kind: genKind(r, mt), Seed: r.Uint64() >> 1}, Frags: genFrags(r, n)})
		rops = append(rops, ROp{Kind: "nr", Sizes: genSizes(r, false)})
	} else {
		// between two reads of one fragmented message
		scn.Note = "during"
		n := r.Pick([]int{lo, lo - 1, r.Range(1, lo)})
		if over {
			n = hi + r.Pick([]int{1, 2, 100, r.Range(1, 3000)})
		}
		if n < 1 {
			n = 1
		}
		// a first fragment the reader may start on, then fragments that are each small
		f1 := r.Range(1, min(n, L1))
		if f1 >= n {
			f1 = max(1, n-1)
		}
		frags := []int{f1}
		rem := n - f1
		for k := r.Range(0, 3); k > 0 && rem > 1; k-- {
			f := r.Range(1, rem-1)
			if r.Bool() {
				f = min(f, max(1, L2))
			}
			frags = append(frags, f)
			rem -= f
		}
		script = append(script, SItem{Kind: "msg", MT: mt, Pay: Payload{Len: n, Kind: genKind(r, mt), Seed: r.Uint64() >> 1}, Frags: frags})
		rops = append(rops, ROp{Kind: "nr", Sizes: genSizes(r, false), SetLimit: true, LimitAt: r.Pick([]int{0, 1, f1 / 2, f1 - 1, f1}), NewLimit: int64(L2)})
	}
	script = append(script, SItem{Kind: "ctl", Op: 8, Code: 1000})
	rops = append(rops, ROp{Kind: "rm"})
	l := Link{Script: script, ScriptChunk: r.Pick([]int{0, 0, 1, 100})}
	task := TaskCfg{Kind: "reader", R: rops, ExtraReads: 1}
	if realIsServer {
		end.Server = r.PickS([]string{"mini", "mini", "nethttp"})
		l.Server = end
		l.STasks = []TaskCfg{task}
	} else {
		l.Client = end
		l.CTasks = []TaskCfg{task}
	}
	scn.Links = []Link{l}
	scn.Net = NetCfg{DefCap: genCap(r)}
	scn.Sched.IdleHorizon = 5000
	return scn
}

func oracleC06Changed(run *Run, e *RealEnd, rt *Task, obs []Obs, exps []Exp) {
	// the limits in force while the last data message of the script arrives
	L1 := int(e.Cfg.ReadLimit)
	L2, during, found := L1, false, false
	for _, op := range rt0(run).R {
		if op.Kind == "limit" {
			L2, found = int(op.NewLimit), true
		}
		if op.SetLimit {
			L2, during, found = int(op.NewLimit), true, true
		}
	}
	if !found {
		return // shrunk away
	}
	lo, hi := L2, L2
	if during {
		lo, hi = min(L1, L2), max(L1, L2)
	}
	who := fmt.Sprintf("reader(server=%v,limit=%d then %d,%s)", e.IsServer, L1, L2, run.Scn.Note)
	want, ncomplete := expectedWithPartial(exps)
	if ncomplete == 0 || len(want) == 0 {
		return
	}
	target := want[ncomplete-1]
	n := len(target.Payload)
	if rt == nil || !rt.Finished {
		run.fail("C06", "reader-stuck", "limit-changed", "%s: the read program did not finish", who)
		return
	}
	switch {
	case n <= lo:
		matched, errAt := checkDelivery(run, "C06", who, want[:ncomplete], obs, "")
		run.Obligations += matched + 1
		if matched != ncomplete {
			detail := ""
			if errAt < len(obs) {
				detail = obs[errAt].Err + ": " + obs[errAt].ErrText
			}
			run.fail("C06", "within-limit-refused", "limit-changed/"+run.Scn.Note, "%s: a %d-byte message, within every limit in force while it arrived, could not be read in full: %s", who, n, detail)
		}
	case n > hi:
		if len(obs) == 0 {
			return // shrunk to a program that never reads
		}
		matched, errAt := checkDelivery(run, "C06", who, want[:ncomplete], obs, "")
		run.Obligations += matched + 1
		if matched < ncomplete-1 {
			run.fail("C06", "within-limit-refused", "limit-changed/"+run.Scn.Note, "%s: only %d of the %d within-limit messages that precede the oversized one were delivered", who, matched, ncomplete-1)
			return
		}
		if matched >= ncomplete || errAt >= len(obs) {
			run.fail("C06", "over-limit-accepted", "limit-changed/"+run.Scn.Note, "%s: a %d-byte message, larger than every limit in force while it arrived, produced no error", who, n)
			return
		}
		o := obs[errAt]
		if !errors.Is(o.ErrVal, websocket.ErrReadLimit) {
			run.fail("C06", "wrong-error", "limit-changed/"+run.Scn.Note, "%s: reading a %d-byte message returned %q, expected ErrReadLimit", who, n, o.ErrText)
		}
		if o.Kind == "msg" && len(o.Data) > hi {
			run.fail("C06", "delivered-beyond-limit", "limit-changed/"+run.Scn.Note, "%s: %d bytes of an oversized message were delivered (limits %d, %d)", who, len(o.Data), L1, L2)
		}
		tv := decodeTap(wsTap(e), !e.IsServer, e.Negotiated)
		if tv.V != nil {
			run.fail("C06", "malformed-wire", tv.V.Rule, "%s wrote a malformed stream: %s", who, tv.V.Error())
			return
		}
		sent1009 := false
		for _, it := range tv.Items {
			if it.Control && it.Opcode == wsframe.OpClose && it.CloseCode == 1009 {
				sent1009 = true
			}
		}
		if !sent1009 {
			run.fail("C06", "no-1009", "limit-changed/"+run.Scn.Note, "%s: no close frame 1009 was sent for an oversized message", who)
		}
	}
}
