package wsim

import (
	"fmt"
	"strings"
)

// C07 — untrusted network input never panics, hangs or allocates out of proportion.
// Seeded mutational sampling without coverage feedback (DESIGN §7, limits).

func init() {
	register(&PropDef{ID: "C07", Num: 7, Gen: genC07, Oracle: oracleC07, Level: "exploration"})
}

var interesting = []byte{0x00, 0x01, 0x7d, 0x7e, 0x7f, 0x80, 0x81, 0x82, 0x88, 0x89, 0x8a, 0xfe, 0xff, '\r', '\n', ',', ';', '"', '\\', ' ', '=', ':'}

// mutate applies 1-4 byte-level mutations.
func mutate(r *PRNG, b []byte) []byte {
	b = append([]byte{}, b...)
	for k := r.Range(1, 4); k > 0; k-- {
		if len(b) == 0 {
			b = append(b, byte(r.Intn(256)))
			continue
		}
		i := r.Intn(len(b))
		switch r.Intn(9) {
		case 0:
			b[i] ^= 1 << uint(r.Intn(8))
		case 1:
			b[i] = interesting[r.Intn(len(interesting))]
		case 2: // insert a span
			n := r.Range(1, 20)
			ins := make([]byte, n)
			r.Fill(ins)
			b = append(b[:i:i], append(ins, b[i:]...)...)
		case 3: // delete a span
			j := i + r.Range(1, 30)
			if j > len(b) {
				j = len(b)
			}
			b = append(b[:i:i], b[j:]...)
		case 4: // duplicate a span
			j := i + r.Range(1, 40)
			if j > len(b) {
				j = len(b)
			}
			b = append(b[:j:j], append(append([]byte{}, b[i:j]...), b[j:]...)...)
		case 5: // truncate
			b = b[:i]
		case 6: // splice: move the tail to the front of the span
			j := r.Intn(len(b))
			if j > i {
				b = append(append(append([]byte{}, b[:i]...), b[j:]...), b[i:j]...)
			}
		case 7: // overwrite with noise
			j := i + r.Range(1, 16)
			if j > len(b) {
				j = len(b)
			}
			r.Fill(b[i:j])
		default: // a huge claimed length: 127 + 8 length bytes
			hdr := []byte{0x82, 127, byte(r.Pick([]int{0, 0x7f, 0x80, 0xff})), 0xff, 0xff, 0xff, 0xff, 0xff, 0xff, byte(r.Intn(256))}
			if r.Bool() {
				hdr[1] |= 0x80
			}
			b = append(b[:i:i], append(hdr, b[i:]...)...)
		}
	}
	return b
}

func genC07(r *PRNG, tier string) *Scenario {
	switch r.Intn(8) {
	case 0, 1, 2, 3:
		return genC07Frames(r)
	case 4, 5:
		return genC07Reply(r)
	case 6:
		return genC07Connect(r)
	}
	return genC07Request(r)
}

// surface 1: frame bytes to a Conn of either role
func genC07Frames(r *PRNG) *Scenario {
	scn := &Scenario{Prop: "C07", Class: "frames", Seed: r.Uint64() >> 1, Sched: genSched(r)}
	realIsServer := r.Bool()
	comp := r.Bool()
	end := &EndCfg{ReadBuf: genBuf(r), WriteBuf: genWBuf(r, 125), Compression: comp}
	if r.Chance(1, 3) {
		end.ReadLimit = int64(r.Pick([]int{1, 100, 5000}))
	}
	var script []SItem
	for i := r.Range(1, 5); i > 0; i-- {
		it := genScriptMsg(r, comp, false, true)
		if it.Pay.Len > 3000 {
			it.Pay.Len = r.Range(0, 3000)
		}
		script = append(script, it)
	}
	if r.Bool() {
		script = append(script, SItem{Kind: "ctl", Op: 8, Code: 1000, Reason: "x"})
	}
	segs, _ := ExpandScript(script, realIsServer, scn.Seed)
	var stream []byte
	for _, s := range segs {
		stream = append(stream, s.Data...)
	}
	switch r.Intn(8) {
	case 6, 7: // a header at a frame boundary that claims far more than will ever arrive
		_, exps := ExpandScript(script, realIsServer, scn.Seed)
		cutAt := 0
		if len(exps) > 0 {
			cutAt = exps[r.Intn(len(exps))].StartOff
		}
		claimed := []uint64{1 << 20, 64 << 20, 1 << 30, 1 << 40, 1 << 62, 1<<63 - 1}[r.Intn(6)]
		var k [4]byte
		hdr := wsframeRawHeader(byte(0x80|r.Range(1, 2)), realIsServer, k, claimed)
		tailN := r.Pick([]int{0, 1, 16, 200})
		tail := make([]byte, tailN)
		stream = append(append(append([]byte{}, stream[:cutAt]...), hdr...), tail...)
		end.ReadLimit = 0
	case 0: // pure noise
		stream = make([]byte, r.Range(0, 400))
		r.Fill(stream)
	case 1: // header storm: thousands of tiny frames
		stream = stream[:0]
		n := r.Range(200, 3000)
		for i := 0; i < n; i++ {
			b0 := byte(r.Pick([]int{0x00, 0x80, 0x89, 0x8a, 0x01, 0x02}))
			if realIsServer {
				stream = append(stream, b0, 0x80, 1, 2, 3, 4)
			} else {
				stream = append(stream, b0, 0x00)
			}
		}
	default:
		stream = mutate(r, stream)
	}
	l := Link{Script: []SItem{{Kind: "bytes", Data: stream}}, PeerClose: "fin", ScriptChunk: r.Pick([]int{0, 0, 1, 50})}
	task := TaskCfg{Kind: "reader", R: genReadProg(r, r.PickS([]string{"", "", "join", "json"})), ExtraReads: r.Pick([]int{0, 5, 995})}
	if r.Chance(1, 3) {
		task.R = []ROp{{Kind: "rm"}}
	}
	if realIsServer {
		end.Server = r.PickS([]string{"mini", "nethttp"})
		l.Server = end
		l.STasks = []TaskCfg{task}
	} else {
		l.Client = end
		l.CTasks = []TaskCfg{task}
	}
	scn.Links = []Link{l}
	scn.Net = NetCfg{DefCap: genCap(r)}
	scn.Sched.IdleHorizon = 10000
	if r.Chance(1, 5) {
		// the write lock is held by a controller that is stalled inside the transport for good:
		// whatever the input, the reader must not block behind it for ever
		scn.Class = "frames-write-stalled"
		ctl := TaskCfg{Kind: "ctl", W: []WOp{{Kind: "ctl", MT: 9, Pay: Payload{Len: 8, Seed: 1}, DlMs: 0}}}
		dir := "ab"
		if realIsServer {
			dir = "ba"
		}
		scn.Net.Conns = []ConnCfg{{Stalls: []Stall{{Dir: dir, Side: "w", At: 0, DurMs: -1}}}}
		lk := &scn.Links[0]
		lk.Script = append([]SItem{{Kind: "pause", PauseMs: 50}}, lk.Script...)
		if realIsServer {
			lk.STasks = append(lk.STasks, ctl)
		} else {
			lk.CTasks = append(lk.CTasks, ctl)
		}
		scn.Sched.IdleHorizon = 4000 * 1000
	}
	return scn
}

// surface 2: bytes presented as the server's reply to Dial
func genC07Reply(r *PRNG) *Scenario {
	scn := &Scenario{Prop: "C07", Class: "dial-reply", Seed: r.Uint64() >> 1, Sched: genSched(r), HS: &HSScn{}}
	d := HSDial{URL: "ws://fuzz.test/", Hooks: "c", Comp: r.Bool(), HsTimeoutMs: 45000, RBuf: genBuf(r)}
	valid := "HTTP/1.1 101 Switching Protocols\r\nUpgrade: websocket\r\nConnection: Upgrade\r\nSec-WebSocket-Accept: s3pPLMBiTxaQ9kYGzzhZRbK+xOo=\r\nSec-WebSocket-Extensions: permessage-deflate; server_no_context_takeover; client_no_context_takeover\r\nSec-WebSocket-Protocol: chat\r\n\r\n"
	var raw []byte
	switch r.Intn(5) {
	case 0:
		raw = make([]byte, r.Range(0, 300))
		r.Fill(raw)
	case 1:
		raw = []byte(r.PickS([]string{"HTTP/1.1 101\r\n\r\n", "HTTP/1.1 999999999999999999999 X\r\n\r\n", "HTTP/1.1 200 OK\r\nContent-Length: 99999999999\r\n\r\nxx",
			"HTTP/1.1 200 OK\r\nTransfer-Encoding: chunked\r\n\r\nffffffffffffffff\r\n", "HTTP/1.1 101 X\r\nSec-WebSocket-Extensions: permessage-deflate; a=\"\\\r\n\r\n",
			"HTTP/1.1 101 X\r\nSec-WebSocket-Extensions: \"\r\n\r\n", "HTTP/1.1 101 X\r\nSec-WebSocket-Extensions: a;b=\"\\\"\";c=\"\\\r\n\r\n", "HTTP/1.1 101 X\r\n" + strings.Repeat("A: b\r\n", 2000) + "\r\n"}))
	default:
		raw = mutate(r, []byte(valid))
	}
	d.Backend = Backend{Kind: "byz", Reply: Reply{Raw: raw, CloseAfter: r.Bool()}}
	if r.Chance(1, 2) {
		// an otherwise valid 101 (right Accept for this key) whose extension and subprotocol
		// headers are hostile: the only way to reach the extension parser on the client
		d.Backend.Reply = Reply{Status: 101, Accept: "good", Upgrade: []string{"websocket"}, Connection: []string{"Upgrade"},
			Ext: genHeaderValue(r, "permessage-deflate; server_no_context_takeover; client_no_context_takeover"),
			Extra: [][2]string{{"Sec-WebSocket-Protocol", genHeaderValue(r, "chat")}}, CloseAfter: true}
		if r.Chance(1, 4) {
			d.Backend.Reply.Extra = append(d.Backend.Reply.Extra, [2]string{"Sec-WebSocket-Extensions", genHeaderValue(r, "foo; bar=\"baz\"")})
		}
	}
	scn.HS.Dials = []HSDial{d}
	scn.Net = NetCfg{DefCap: genCap(r)}
	scn.Sched.IdleHorizon = 100000
	return scn
}

// surface 3: bytes presented as a proxy's reply to CONNECT
func genC07Connect(r *PRNG) *Scenario {
	scn := &Scenario{Prop: "C07", Class: "connect-reply", Seed: r.Uint64() >> 1, Sched: genSched(r), HS: &HSScn{}}
	d := HSDial{URL: "ws://fuzz.test/", Hooks: "c", HsTimeoutMs: 45000, ProxyURL: "http://proxy.test:3128"}
	valid := "HTTP/1.1 200 Connection established\r\nProxy-Agent: x\r\n\r\n"
	var raw []byte
	switch r.Intn(4) {
	case 0:
		raw = make([]byte, r.Range(0, 200))
		r.Fill(raw)
	case 1:
		raw = []byte(r.PickS([]string{"HTTP/1.1 407\r\n\r\n", "HTTP/1.1 \r\n\r\n", "HTTP/1.1 200\r\n\r\n", "HTTP/1.1  \r\n\r\n", "HTTP/1.1 2000 OK\r\n\r\n", "HTTP/1.1 407 \r\n\r\n",
			"HTTP/1.1 -1 X\r\n\r\n", "HTTP/1.1 200 OK\r\nContent-Length: -1\r\n\r\n", "HTTP/9.9 200 OK\r\n\r\n", "HTTP/1.1 503 Service Unavailable\r\nContent-Length: 100000\r\n\r\n"}))
	default:
		raw = mutate(r, []byte(valid))
	}
	d.Proxy = &ProxyCfg{Kind: "http", Reply: "raw", Raw: raw}
	d.Backend = Backend{Kind: "upgrader"}
	scn.HS.Dials = []HSDial{d}
	scn.Net = NetCfg{DefCap: genCap(r)}
	scn.Sched.IdleHorizon = 100000
	return scn
}

var headerAlphabet = []byte("abcdefghijklmnopqrstuvwxyzABCDEFGHIJKLMNOPQRSTUVWXYZ0123456789 \t,;=\"\\/+-_.:*()<>@[]{}?!#$%&'^`|~\x80\xc3\xa9\xff")

func genHeaderValue(r *PRNG, base string) string {
	switch r.Intn(5) {
	case 0:
		return base
	case 1:
		n := r.Range(0, 60)
		b := make([]byte, n)
		for i := range b {
			b[i] = headerAlphabet[r.Intn(len(headerAlphabet))]
		}
		return string(b)
	case 2:
		return r.PickS([]string{"", " ", ",", ",,,", ";", "\"", "\\", "\"\\", "a=\"", "a;b=\"\\", "permessage-deflate; x=\"\\\"", "permessage-deflate;;;", ";=;=", "a, b;c=\"d\\", strings.Repeat("a,", 3000), strings.Repeat("x;y=\"\\\\\",", 500), "=", "\t\t", "\xff\xfe"})
	default:
		m := mutate(r, []byte(base))
		out := m[:0]
		for _, c := range m {
			if c == '\r' || c == '\n' || c == 0 || (c < 0x20 && c != '\t') || c == 0x7f {
				c = ' '
			}
			out = append(out, c)
		}
		return string(out)
	}
}

// surface 4: handshake request header values from a client
func genC07Request(r *PRNG) *Scenario {
	scn := &Scenario{Prop: "C07", Class: "request-headers", Seed: r.Uint64() >> 1, Sched: genSched(r), HS: &HSScn{}}
	// most requests have one or two hostile headers and are valid otherwise, so that the
	// checks behind the first one (key, origin, subprotocols, extensions) are reached
	names := []string{"Connection", "Upgrade", "Sec-WebSocket-Version", "Sec-WebSocket-Key", "Sec-WebSocket-Protocol", "Sec-WebSocket-Extensions", "Origin"}
	hostile := map[string]bool{}
	switch r.Intn(4) {
	case 0:
		for _, n := range names {
			hostile[n] = true
		}
	default:
		hostile[names[r.Intn(len(names))]] = true
		if r.Bool() {
			hostile[names[4+r.Intn(3)]] = true
		}
	}
	hv := func(name, base string) string {
		if !hostile[name] {
			return name + ": " + base + "\r\n"
		}
		v := genHeaderValue(r, base)
		if name == "Sec-WebSocket-Key" && r.Bool() {
			// strings over the base64 alphabet of every interesting length, with 0-3 padding characters
			n := r.Pick([]int{0, 1, 4, 16, 20, 21, 22, 23, 24, 24, 24, 25, 26, 28, 32, 44})
			pad := r.Intn(4)
			b := make([]byte, n)
			for i := range b {
				b[i] = "ABCDEFGHIJKLMNOPQRSTUVWXYZabcdefghijklmnopqrstuvwxyz0123456789+/"[r.Intn(64)]
			}
			for i := 0; i < pad && i < n; i++ {
				b[n-1-i] = '='
			}
			v = string(b)
		}
		if r.Chance(1, 6) {
			return name + ": " + v + "\r\n" + name + ": " + genHeaderValue(r, base) + "\r\n"
		}
		if r.Chance(1, 12) {
			return ""
		}
		return name + ": " + v + "\r\n"
	}
	req := "GET /f HTTP/1.1\r\nHost: srv.test\r\n" +
		hv("Connection", "Upgrade") + hv("Upgrade", "websocket") + hv("Sec-WebSocket-Version", "13") +
		hv("Sec-WebSocket-Key", "dGhlIHNhbXBsZSBub25jZQ==") + hv("Sec-WebSocket-Protocol", "chat, superchat") +
		hv("Sec-WebSocket-Extensions", "permessage-deflate; client_max_window_bits; server_max_window_bits=10") + hv("Origin", "http://srv.test") + "\r\n"
	scn.HS.SrvReq = []byte(req)
	scn.HS.Srv = &Backend{Kind: "upgrader", Server: r.PickS([]string{"mini", "nethttp"}), Comp: r.Chance(3, 4)}
	scn.Net = NetCfg{DefCap: 1 << 20}
	scn.Sched.IdleHorizon = 10000
	return scn
}

func oracleC07(run *Run) {
	commonChecks(run)
	cls := run.Scn.Class
	for _, p := range run.Panics {
		if strings.Contains(p, "repeated read on failed websocket connection") {
			run.fail("C07", "panic", "documented-panic-too-early", "the documented 1000-read panic fired although fewer than 1000 failing reads were made: %s", clipN(p, 300))
			continue
		}
		run.fail("C07", "panic", cls+"/"+panicSite(p), "%s", clipN(p, 1200))
	}
	received := 0
	switch cls {
	case "frames", "frames-write-stalled":
		e := realOfLink(run, 0)
		if e == nil {
			return
		}
		received = int(e.Net.BytesRead())
		rt := findTask(e, "reader")
		if rt == nil || !rt.Finished {
			if run.Reason != "steps" {
				run.fail("C07", "hang", cls, "the peer sent %d bytes and closed, but the read program never finished (%s)", received, run.Reason)
			}
			return
		}
		run.Obligations++
		checkSticky(run, "C07", "reader", rt)
	case "dial-reply", "connect-reply":
		if run.HS == nil || len(run.HS.Dials) == 0 {
			return
		}
		res := run.HS.Dials[0]
		if res.Panic != "" {
			run.fail("C07", "panic", cls+"/"+panicSite(res.Panic), "Dial panicked: %s", clipN(res.Panic, 1200))
			return
		}
		if !res.Returned {
			if run.Reason != "steps" {
				run.fail("C07", "hang", cls, "Dial did not return although a 45 s handshake time-out was set (%s)", run.Reason)
			}
			return
		}
		if res.Conn == nil && res.Err == nil {
			run.fail("C07", "no-result", cls, "Dial returned neither a connection nor an error")
		}
		for _, hc := range res.Hooks {
			if hc.Conn != nil {
				received += int(hc.Conn.BytesRead())
			}
		}
		run.Obligations++
	case "request-headers":
		log := run.HS.Srv
		if log == nil {
			return
		}
		if strings.HasPrefix(log.UpgradeErr, "PANIC") {
			run.fail("C07", "panic", cls+"/"+panicSite(log.UpgradeErr), "%s", clipN(log.UpgradeErr, 1200))
			return
		}
		received = len(run.Scn.HS.SrvReq)
		if log.Accepted > 0 {
			run.Obligations++
		}
	}
	// memory in proportion to the bytes received
	if run.AllocBytes > 0 {
		// the harness itself allocates a park record and a channel per scheduler step
		limit := uint64(6<<20) + 4096*uint64(received) + 512*run.Stats.Steps
		if run.AllocBytes > limit {
			run.fail("C07", "allocation", cls, "the run allocated %d bytes after receiving %d bytes from the network (bound %d = 6 MiB + 4096 per byte received + 512 per scheduler step for the harness)", run.AllocBytes, received, limit)
		}
	}
	if run.Reason == "steps" {
		run.Discard = ""
		run.fail("C07", "hang", cls+"/step-cap", "the run was still going after %d scheduler steps on %d input bytes: something loops without consuming input", run.Stats.Steps, received)
	}
	_ = fmt.Sprint
}

// wsframeRawHeader builds a data-frame header claiming n payload bytes in the 64-bit form.
func wsframeRawHeader(b0 byte, masked bool, key [4]byte, n uint64) []byte {
	h := []byte{b0, 127, byte(n >> 56), byte(n >> 48), byte(n >> 40), byte(n >> 32), byte(n >> 24), byte(n >> 16), byte(n >> 8), byte(n)}
	if masked {
		h[1] |= 0x80
		h = append(h, key[:]...)
	}
	return h
}
