package wsim

import (
	"errors"
	"fmt"

	"github.com/gorilla/websocket"
	"wsim/wsframe"
)

// C08 — control frames: handlers see each frame once; ping answered, close echoed.

func init() {
	register(&PropDef{ID: "C08", Num: 8, Gen: genC08, Oracle: oracleC08, Level: "exploration"})
}

// 1012 and 1013 were registered with IANA after RFC 6455; the package exports
// names for them (CloseServiceRestart, CloseTryAgainLater), so applications send them.
var goodCloseCodes = []int{1000, 1001, 1002, 1003, 1007, 1008, 1009, 1010, 1011, 1012, 1013, 3000, 3999, 4000, 4999}

func genCtlData(r *PRNG) []byte {
	d := make([]byte, r.Pick([]int{0, 1, 2, 5, 124, 125, r.Range(0, 125)}))
	r.Fill(d)
	return d
}

func genC08(r *PRNG, tier string) *Scenario {
	scn := &Scenario{Prop: "C08", Class: "controls", Seed: r.Uint64() >> 1, Sched: genSched(r)}
	realIsServer := r.Bool()
	comp := r.Chance(1, 3)
	mode := r.PickS([]string{"default", "observe", "observe", "record", "error"})
	end := &EndCfg{ReadBuf: genBuf(r), WriteBuf: genWBuf(r, 125), Compression: comp, Handlers: mode}
	var script []SItem
	nctl := 0
	ctl := func() SItem {
		nctl++
		return SItem{Kind: "ctl", Op: r.Pick([]int{9, 9, 10}), Data: genCtlData(r), KeyMode: r.PickS([]string{"rand", "zero", "ones"})}
	}
	if r.Chance(1, 6) {
		// ... or before anything else: replies are due however old the connection is
		script = append(script, SItem{Kind: "pause", PauseMs: int64(r.Pick([]int{1100, 2500, 4500}))})
	}
	for i := r.Range(0, 3); i > 0; i-- {
		script = append(script, ctl())
	}
	for i := r.Range(0, 5); i > 0; i-- {
		it := genScriptMsg(r, comp, false, true)
		if it.Comp-1 == 4 {
			it.Comp = 1 // the BFINAL form legitimately ends a message before its last frames are consumed (see C05)
		}
		if it.Pay.Len > 4000 {
			it.Pay.Len = r.Range(0, 4000)
		}
		// many controls between fragments, some back to back
		for k := r.Range(0, 4); k > 0; k-- {
			it.Ctls = append(it.Ctls, CtlAt{After: r.Range(-1, len(it.Frags)), Op: r.Pick([]int{9, 10}), Data: genCtlData(r)})
		}
		nctl += len(it.Ctls)
		script = append(script, it)
		for k := r.Range(0, 2); k > 0; k-- {
			script = append(script, ctl())
		}
	}
	if r.Chance(1, 4) {
		// the peer idles before it closes: the echo is due whenever the close arrives
		script = append(script, SItem{Kind: "pause", PauseMs: int64(r.Pick([]int{1100, 2500, 4500}))})
	}
	cl := SItem{Kind: "ctl", Op: 8}
	switch r.Intn(4) {
	case 0:
		cl.NoBody = true
	default:
		cl.Code = goodCloseCodes[r.Intn(len(goodCloseCodes))]
		reason := Payload{Len: r.Pick([]int{0, 0, 5, 122, 123}), Kind: "text", Seed: r.Uint64() >> 1}.Bytes()
		cl.Reason = string(reason)
	}
	script = append(script, cl)
	// traffic after the close must not be processed
	for i := r.Range(0, 2); i > 0; i-- {
		script = append(script, SItem{Kind: "ctl", Op: 9, Data: []byte("late")})
	}
	if mode == "error" {
		end.HandlerErrAt = r.Range(1, nctl+1)
		end.HandlerErrKind = r.PickS([]string{"", "", "eof", "ueof"})
	}
	end.ResetHandlers = r.Chance(1, 3)
	l := Link{Script: script, ScriptChunk: r.Pick([]int{0, 0, 1, 100})}
	task := TaskCfg{Kind: "reader", R: genReadProg(r, r.PickS([]string{"", "noabandon", "noabandon"})), ExtraReads: r.Pick([]int{1, 3})}
	if realIsServer {
		end.Server = r.PickS([]string{"mini", "mini", "nethttp"})
		l.Server = end
		l.STasks = []TaskCfg{task}
	} else {
		l.Client = end
		l.CTasks = []TaskCfg{task}
	}
	scn.Links = []Link{l}
	scn.Net = NetCfg{DefCap: genCap(r)}
	if mode != "error" && r.Chance(1, 4) {
		// The local side can no longer write (it has sent its own close, or its transport
		// failed on the first write) and keeps reading: handlers still see every frame, data is
		// still delivered, and the peer's close is still reported as a CloseError.
		lk := &scn.Links[0]
		lk.Script = append([]SItem{{Kind: "waitstep", PauseMs: 60}}, lk.Script...)
		var w TaskCfg
		if r.Bool() {
			scn.Class = "controls-after-local-close"
			w = TaskCfg{Kind: "writer", W: []WOp{{Kind: "ctl", MT: 8, Code: 1000, DlMs: 0}}}
		} else {
			scn.Class = "controls-after-write-failure"
			w = TaskCfg{Kind: "writer", W: []WOp{{Kind: "msg", MT: 2, Pay: Payload{Len: 10, Seed: 1}}}}
			f := OpFault{Side: "w", AfterHead: true, K: r.Range(0, 1), Kind: r.Pick([]int{fErr, fTimeout})}
			if realIsServer {
				scn.Net.Conns = []ConnCfg{{FaultsB: []OpFault{f}}}
			} else {
				scn.Net.Conns = []ConnCfg{{FaultsA: []OpFault{f}}}
			}
		}
		if realIsServer {
			lk.STasks = append(lk.STasks, w)
		} else {
			lk.CTasks = append(lk.CTasks, w)
		}
	}
	return scn
}

func oracleC08(run *Run) {
	commonChecks(run)
	for _, p := range run.Panics {
		run.fail("C08", "panic", "panic", "%s", p)
	}
	l := &run.Scn.Links[0]
	e := realOfLink(run, 0)
	if e == nil {
		if run.Scn.Class != "controls-after-write-failure" { // there the injected fault may hit the tail of the handshake
			run.fail("HARNESS", "no-connection", "hs", "handshake failed")
		}
		return
	}
	_, exps := ExpandScript(l.Script, e.IsServer, run.Scn.Seed)
	mode := e.Cfg.Handlers
	who := fmt.Sprintf("reader(server=%v,handlers=%s)", e.IsServer, mode)
	rt := findTask(e, "reader")
	if rt == nil || !rt.Finished {
		run.fail("C08", "reader-stuck", "stuck", "%s: the read program did not finish", who)
		return
	}
	// wire order of control frames up to and including the first close
	var ctls []Exp
	var msgsBefore []int // number of data messages that ended before each control
	var closeExp *Exp
	nmsg := 0
	for i := range exps {
		x := exps[i]
		if x.Control {
			ctls = append(ctls, x)
			msgsBefore = append(msgsBefore, nmsg)
			if x.Op == wsframe.OpClose {
				closeExp = &exps[i]
				break
			}
		} else if x.Complete {
			// a data message "ends" at its EndOff; controls listed after it in exps with Inside are inside it
			nmsg++
		}
	}
	// Exp order: a message's Exp precedes the controls inside it, so recount for inside controls
	nmsg = 0
	ci := 0
	for i := range exps {
		x := exps[i]
		if x.Control {
			if ci < len(msgsBefore) {
				if x.Inside || insideOf(exps, i) {
					msgsBefore[ci] = nmsg - 1
				} else {
					msgsBefore[ci] = nmsg
				}
			}
			ci++
			if x.Op == wsframe.OpClose {
				break
			}
		} else if x.Complete {
			nmsg++
		}
	}
	want := []Msg{}
	for _, x := range exps {
		if x.Control && x.Op == wsframe.OpClose {
			break
		}
		if !x.Control && x.Complete {
			want = append(want, Msg{MT: x.Op, Payload: x.Payload})
		}
	}
	obs, _ := observations(rt)
	matched, errAt := checkDelivery(run, "C08", who, want, obs, "")
	stopAt := len(ctls) // number of handler calls expected
	handlerErr := false
	if mode == "error" && e.Cfg.HandlerErrAt <= len(ctls) {
		stopAt = e.Cfg.HandlerErrAt
		handlerErr = true
	}
	// handler log
	if mode != "default" {
		hs := e.Handlers
		if len(hs) != stopAt {
			run.fail("C08", "handler-count", fmt.Sprintf("%s", mode), "%s: %d control frames on the wire (handler error at call %d) but %d handler calls were made", who, len(ctls), e.Cfg.HandlerErrAt, len(hs))
		}
		for i := 0; i < len(hs) && i < stopAt; i++ {
			x := ctls[i]
			h := hs[i]
			okData := h.Data == string(x.Payload)
			if x.Op == wsframe.OpClose {
				okData = h.Code == x.CloseCode && h.Data == x.CloseText
			}
			if h.Op != x.Op || !okData {
				run.fail("C08", "handler-payload", opName(x.Op), "%s: handler call %d received opcode %d payload %q (code %d); the wire has opcode %d payload %q (code %d)", who, i, h.Op, clip(h.Data), h.Code, x.Op, clip(string(x.Payload)), x.CloseCode)
				break
			}
			if x.Inside && allNR(run) && !compressedScript(l.Script) && h.Delivered != x.AtBytes {
				run.fail("C08", "handler-position", opName(x.Op), "%s: handler call %d ran after %d bytes of the surrounding message had been delivered; on the wire %d bytes of it precede that control frame", who, i, h.Delivered, x.AtBytes)
				break
			}
			if h.MsgIndex != msgsBefore[i] && !abandons(run) {
				run.fail("C08", "handler-order", opName(x.Op), "%s: handler call %d ran while message %d was being read, but on the wire %d messages end before that control frame", who, i, h.MsgIndex, msgsBefore[i])
				break
			}
			run.Obligations++
		}
	}
	if handlerErr {
		// the read call returns the handler's error, permanently
		if errAt == len(obs) {
			run.fail("C08", "handler-error-lost", "lost", "%s: a handler returned an error but the read program saw none", who)
		} else if k := e.Cfg.HandlerErrKind; k == "eof" || k == "ueof" {
			// the handler returned an EOF value. The library may report it as it is or, inside a message, as
			// its own unexpected-EOF error; what matters is that the read fails (checked above) and that the
			// unfinished message is not reported complete (the delivery check)
		} else if !errors.Is(obs[errAt].ErrVal, errHandler) {
		} else if !errors.Is(obs[errAt].ErrVal, errHandler) {
			run.fail("C08", "handler-error-lost", "replaced", "%s: a handler returned an error but the read API returned %q", who, obs[errAt].ErrText)
		}
		checkSticky(run, "C08", who, rt)
		return
	}
	if closeExp == nil {
		return
	}
	// reads fail with CloseError{code, reason}
	if matched != len(want) {
		run.fail("C08", "missing-message", "missing", "%s: %d messages precede the close frame, %d were delivered", who, len(want), matched)
	}
	if errAt == len(obs) {
		run.fail("C08", "close-not-reported", "none", "%s: a close frame was received but no read failed", who)
	} else {
		o := obs[errAt]
		var ce *websocket.CloseError
		ok := errors.As(o.ErrVal, &ce)
		if !ok || ce.Code != closeExp.CloseCode || ce.Text != closeExp.CloseText {
			run.fail("C08", "close-error-fields", "fields", "%s: close frame carried code %d reason %q; the read API returned %s (%q)", who, closeExp.CloseCode, clip(closeExp.CloseText), o.Err, clip(o.ErrText))
		}
	}
	checkSticky(run, "C08", who, rt)
	run.Obligations++
	// default handlers: the wire carries one pong per ping (same payload, same order) and one close echo
	cannotWrite := run.Scn.Class == "controls-after-local-close" || run.Scn.Class == "controls-after-write-failure"
	if cannotWrite {
		// nothing may follow the local close / the failed write; replies are impossible, reading goes on
		tv := decodeTap(wsTap(e), !e.IsServer, e.Negotiated)
		if tv.V != nil {
			run.fail("C08", "malformed-wire", tv.V.Rule, "%s wrote a malformed stream: %s", who, tv.V.Error())
		}
		return
	}
	if mode == "default" || mode == "observe" {
		tv := decodeTap(wsTap(e), !e.IsServer, e.Negotiated)
		if tv.V != nil {
			run.fail("C08", "malformed-wire", tv.V.Rule, "%s wrote a malformed stream: %s", who, tv.V.Error())
			return
		}
		var pings [][]byte
		for _, x := range ctls {
			if x.Op == wsframe.OpPing {
				pings = append(pings, x.Payload)
			}
		}
		pi := 0
		closed := false
		for _, it := range tv.Items {
			if !it.Control {
				run.fail("C08", "unexpected-output", "data", "%s: a data message was written by a connection that only reads", who)
				continue
			}
			switch it.Opcode {
			case wsframe.OpPong:
				if closed {
					run.fail("C08", "written-after-close", "pong", "%s: a pong was written after the close echo", who)
				}
				if pi >= len(pings) {
					run.fail("C08", "pong-extra", "extra", "%s: more pongs written than pings received before the close", who)
				} else if string(it.Payload) != string(pings[pi]) {
					run.fail("C08", "pong-payload", "payload", "%s: pong %d carries %q, the ping carried %q", who, pi, clip(string(it.Payload)), clip(string(pings[pi])))
				}
				pi++
			case wsframe.OpClose:
				if closed {
					run.fail("C08", "written-after-close", "close", "%s: two close frames written", who)
				}
				closed = true
				if it.CloseCode != closeExp.CloseCode {
					run.fail("C08", "close-echo-code", "code", "%s: received close %d, echoed %d", who, closeExp.CloseCode, it.CloseCode)
				}
				if closeExp.CloseCode == 1005 && len(it.Payload) != 0 {
					run.fail("C08", "close-echo-code", "body", "%s: received an empty close, echoed a body", who)
				}
			}
		}
		if pi < len(pings) {
			run.fail("C08", "pong-missing", "missing", "%s: %d pings were received before the close but %d pongs were written (write path was free)", who, len(pings), pi)
		}
		if !closed {
			run.fail("C08", "close-echo-missing", "missing", "%s: the close frame was not echoed", who)
		}
	} else if mode == "record" && !cannotWrite {
		if len(wsTap(e)) != 0 {
			run.fail("C08", "unexpected-output", "record", "%s: bytes were written although the handlers send nothing", who)
		}
	}
}

// insideOf: is exps[i] (a control) positioned before the EndOff of the most recent data message?
func insideOf(exps []Exp, i int) bool {
	for j := i - 1; j >= 0; j-- {
		if !exps[j].Control {
			return exps[i].StartOff < exps[j].EndOff
		}
	}
	return false
}

func abandons(run *Run) bool {
	for _, l := range run.Scn.Links {
		for _, ts := range [][]TaskCfg{l.CTasks, l.STasks} {
			for _, t := range ts {
				for _, op := range t.R {
					if op.Abandon != 0 {
						return true
					}
				}
			}
		}
	}
	return false
}

func opName(op int) string {
	switch op {
	case 8:
		return "close"
	case 9:
		return "ping"
	case 10:
		return "pong"
	}
	return fmt.Sprint(op)
}

func clip(s string) string {
	if len(s) > 40 {
		return s[:40] + "…"
	}
	return s
}

// allNR: the read program consists of NextReader + Read loops that read every message to its end.
func allNR(run *Run) bool {
	t := rt0(run)
	if len(t.R) == 0 {
		return false
	}
	for _, op := range t.R {
		if op.Kind != "nr" || op.Abandon != 0 {
			return false
		}
	}
	return true
}

func compressedScript(items []SItem) bool {
	for _, it := range items {
		if it.Kind == "msg" && it.Comp > 0 {
			return true
		}
	}
	return false
}
