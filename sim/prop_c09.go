package wsim

import (
	"fmt"

	"wsim/wsframe"
)

// C09 — a close frame is the last thing a connection ever writes.

func init() {
	register(&PropDef{ID: "C09", Num: 9, Gen: genC09, Oracle: oracleC09, Level: "exploration"})
}

var closePaths = []string{"ctl", "msg", "nw", "prep", "handler", "proto", "limit"}

func genC09(r *PRNG, tier string) *Scenario {
	path := closePaths[r.Intn(len(closePaths))]
	scn, l, end, realIsServer := genSoloWriter(r, "C09", "close-"+path)
	// the writer's program: messages with many steps, so that the close lands inside one
	var ops []WOp
	n := r.Range(1, 6)
	for i := 0; i < n; i++ {
		op := genWriteOp(r, effW(end.WriteBuf), false, 0)
		if op.Kind == "prep" {
			op = WOp{Kind: "msg", MT: 2, Pay: Payload{Len: 10, Seed: 1}}
		}
		if op.Pay.Len > 10000 {
			op.Pay.Len = r.Range(0, 10000)
			fixChunks(&op)
		}
		if op.Kind == "nw" && r.Chance(1, 2) {
			// several flushes per message: payload well above the buffer, written in pieces
			op.Pay.Len = effW(end.WriteBuf)*r.Range(2, 4) + r.Range(0, 50)
			if op.Pay.Len > 20000 {
				op.Pay.Len = 20000
			}
			op.Chunks = genChunks(r, op.Pay.Len)
		}
		ops = append(ops, op)
		if op.End == "implicit" {
			ops = append(ops, WOp{Kind: "msg", MT: 2, Pay: Payload{Len: r.Range(0, 200), Seed: 7}})
		}
		if r.Chance(1, 5) {
			ops = append(ops, WOp{Kind: "ctl", MT: r.Pick([]int{9, 10}), Pay: Payload{Len: r.Range(0, 125), Seed: r.Uint64() >> 1}, DlMs: int64(r.Pick([]int{0, 3600000}))})
		}
	}
	// rough number of scheduler steps the program takes; the close is placed anywhere in it
	est := 10 + 4*len(ops)
	for _, op := range ops {
		est += 2*len(op.Chunks) + 2*op.Pay.Len/effW(end.WriteBuf)
	}
	at := r.Range(0, est+20)
	closeOp := func(kind string) []WOp {
		code := r.Pick([]int{1000, 1001, 1011, 4000})
		switch kind {
		case "msg":
			return []WOp{{Kind: "msg", MT: 8, Code: code, Pay: Payload{Len: r.Pick([]int{0, 2, 30, 125}), Seed: 3}}}
		case "nw":
			ln := r.Pick([]int{0, 2, 30, 125})
			return []WOp{{Kind: "nw", MT: 8, Code: code, Pay: Payload{Len: ln, Seed: 3}, Chunks: genChunks(r, ln), End: "close"}}
		case "prep":
			return []WOp{{Kind: "prep", PM: 0}}
		}
		return []WOp{{Kind: "ctl", MT: 8, Code: code, DlMs: int64(r.Pick([]int{0, 3600000}))}}
	}
	var tasks []TaskCfg
	switch path {
	case "msg", "nw", "prep":
		// the writer goroutine itself sends the close at a drawn position, then carries on
		k := r.Intn(len(ops) + 1)
		if path == "prep" {
			scn.Prepared = []Prepared{{MT: 8, Code: 1001, Pay: Payload{Len: r.Pick([]int{0, 2, 40}), Seed: 5}}}
		}
		// never directly after an implicitly closed writer (WritePreparedMessage then is outside the contract)
		for k > 0 && ops[k-1].End == "implicit" {
			k--
		}
		ops = append(ops[:k:k], append(closeOp(path), ops[k:]...)...)
		tasks = []TaskCfg{{Kind: "writer", W: ops}}
	case "ctl":
		tasks = []TaskCfg{{Kind: "writer", W: ops}, {Kind: "ctl", W: append([]WOp{{Kind: "waitstep", Lvl: at}}, closeOp("ctl")...)}}
	default: // reader-triggered closes
		tasks = []TaskCfg{{Kind: "writer", W: ops}, {Kind: "reader", R: []ROp{{Kind: "rm"}}, ExtraReads: 1}}
		sc := []SItem{{Kind: "waitstep", PauseMs: int64(at)}}
		if r.Bool() {
			sc = append(sc, SItem{Kind: "msg", MT: 2, Pay: Payload{Len: 1, Seed: 1}})
		}
		switch path {
		case "handler":
			sc = append(sc, SItem{Kind: "ctl", Op: 8, Code: r.Pick([]int{1000, 1001, 3000}), Reason: "bye"})
		case "proto":
			sc = append(sc, genViolation(r, end.Compression, false))
			for sc[len(sc)-1].Reason == "length-topbit" {
				sc[len(sc)-1] = genViolation(r, end.Compression, false)
			}
		case "limit":
			end.ReadLimit = 4
			sc = append(sc, SItem{Kind: "msg", MT: 2, Pay: Payload{Len: r.Range(5, 200), Seed: 2}})
		}
		l.Script = sc
	}
	// other controllers pinging concurrently, some arriving after the close
	for i := r.Pick([]int{0, 0, 1, 2, 3}); i > 0; i-- {
		var cops []WOp
		if r.Bool() {
			cops = append(cops, WOp{Kind: "waitstep", Lvl: r.Range(0, est+30)})
		}
		for k := r.Range(1, 3); k > 0; k-- {
			cops = append(cops, WOp{Kind: "ctl", MT: r.Pick([]int{9, 10}), Pay: Payload{Len: r.Pick([]int{0, 9, 125}), Seed: r.Uint64() >> 1}, DlMs: int64(r.Pick([]int{0, 7200000}))})
		}
		tasks = append(tasks, TaskCfg{Kind: "ctl", W: cops})
	}
	// a second close by another path in some runs
	if r.Chance(1, 5) {
		tasks = append(tasks, TaskCfg{Kind: "ctl", W: append([]WOp{{Kind: "waitstep", Lvl: r.Range(0, est+30)}}, closeOp("ctl")...)})
	}
	setTasks(l, realIsServer, tasks)
	scn.Net = NetCfg{DefCap: r.Pick([]int{64, 4096, 1 << 20})}
	scn.Sched.IdleHorizon = 5000
	return scn
}

func oracleC09(run *Run) {
	commonChecks(run)
	for _, p := range run.Panics {
		run.fail("C09", "panic", "panic", "%s", p)
	}
	e := realOfLink(run, 0)
	if e == nil {
		run.fail("HARNESS", "no-connection", "hs", "handshake failed")
		return
	}
	who := endName(e)
	path := run.Scn.Class
	raw := wsTap(e)
	tv := decodeTap(raw, !e.IsServer, e.Negotiated)
	if tv.V != nil {
		run.fail("C09", "malformed-wire", tv.V.Rule, "%s wrote a malformed stream: %s", who, tv.V.Error())
		return
	}
	// the first complete close frame
	closeEnd := -1
	for _, f := range tv.Frames {
		if f.Opcode == wsframe.OpClose {
			closeEnd = f.End
			break
		}
	}
	if closeEnd < 0 {
		return // no close got onto the wire in this run (e.g. the program finished first)
	}
	run.Obligations++
	if closeEnd != len(raw) {
		// what follows?
		what := "bytes"
		for _, f := range tv.Frames {
			if f.Start >= closeEnd {
				what = fmt.Sprintf("a frame with opcode %d", f.Opcode)
				break
			}
		}
		run.fail("C09", "written-after-close", path+"/"+what, "%s: %d bytes (%s) were written after the close frame that ends at stream offset %d", who, len(raw)-closeEnd, what, closeEnd)
	}
	// step at which the transport accepted the last byte of the close frame
	closeStep, _ := StepOfByte(e.Net.TapChunks(), int64(headLen(e)+closeEnd-1))
	// was there a transport failure before the close?
	_, _, _, failedBefore := writeSideFailure(e)
	for _, t := range e.Tasks {
		for _, r := range t.Hist {
			if !isMessageLevelWrite(r.Op) || r.Teardown || r.Invoke <= closeStep {
				continue
			}
			run.Obligations++
			if r.Err == "" {
				run.fail("C09", "write-after-close-succeeded", path+"/"+r.Op, "%s: %s invoked at step %d returned nil although the close frame had been written at step %d", who, r.Op, r.Invoke, closeStep)
				continue
			}
			expired := r.Op == "WriteControl" && r.N < 0
			if r.Op != "Close" && !invalidRequest(r) && !expired && !failedBefore && r.Err != "ErrCloseSent" {
				run.fail("C09", "wrong-error-after-close", path+"/"+r.Op, "%s: %s of a valid request after the close frame returned %s (%s), expected ErrCloseSent", who, r.Op, r.Err, r.ErrText)
			}
		}
	}
	// a message reported as sent must be completely on the wire
	sent, _, _ := sentLog(findTask(e, "writer"))
	var data []wsframe.Item
	for _, it := range tv.Items {
		if !it.Control {
			data = append(data, it)
		}
	}
	if len(sent) > len(data) {
		run.fail("C09", "reported-sent-not-on-wire", path, "%s: %d data messages were reported as sent but only %d are complete on the wire (a writer open across the close must fail no later than its Close)", who, len(sent), len(data))
	}
	for i := 0; i < len(sent) && i < len(data); i++ {
		if int(data[i].Opcode) != sent[i].MT || string(data[i].Payload) != string(sent[i].Payload) {
			run.fail("C09", "wire-payload", path, "%s: wire message %d differs from the API message", who, i)
			break
		}
	}
}
