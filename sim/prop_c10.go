package wsim

import (
	"fmt"

	"wsim/wsframe"
)

// C10 — write failures are fail-stop; bad requests write nothing; deadlines are applied.
// Family C: one real connection writing into a sink peer, with op-indexed
// write-side faults.

func init() {
	register(&PropDef{ID: "C10", Num: 10, Gen: genC10, Oracle: oracleC10, Level: "fault_enumeration", Sweep: sweepC10, SweepN: 120})
}

var writeFaultKinds = []int{fErr, fTimeout, fShort, fShortTimeout}

// genInvalidOp draws an invalid write request.
func genInvalidOp(r *PRNG) WOp {
	switch r.Intn(4) {
	case 0:
		return WOp{Kind: "badtype", MT: r.Pick([]int{0, 3, 7, 11, 15, -1, 100}), Pay: Payload{Len: r.Range(0, 50), Seed: 1}}
	case 1:
		return WOp{Kind: "bigctl", MT: r.Pick([]int{8, 9, 10}), Pay: Payload{Len: r.Pick([]int{126, 127, 300, 5000}), Seed: 2}}
	case 2:
		return WOp{Kind: "ctl", MT: r.Pick([]int{9, 10}), Pay: Payload{Len: r.Pick([]int{126, 200}), Seed: 3}, DlMs: 3600000}
	default:
		n := r.Pick([]int{126, 130, 250, 300})
		a := r.Range(1, 125)
		return WOp{Kind: "fragctl", MT: r.Pick([]int{9, 10}), Pay: Payload{Len: n, Seed: 4}, Chunks: []Chunk{{How: "w", N: a}, {How: r.PickS([]string{"w", "s"}), N: n - a}}, End: "close"}
	}
}

// genSoloWriter builds the common shape of family C: one real end (role
// drawn) whose peer is a sink.
func genSoloWriter(r *PRNG, prop, class string) (*Scenario, *Link, *EndCfg, bool) {
	scn := &Scenario{Prop: prop, Class: class, Seed: r.Uint64() >> 1, Sched: genSched(r)}
	realIsServer := r.Bool()
	comp := r.Chance(1, 3)
	end := &EndCfg{ReadBuf: 0, WriteBuf: genWBuf(r, 0), Compression: comp}
	if r.Chance(1, 3) {
		end.Pool = 1
	}
	if r.Chance(1, 4) {
		end.SetLevel, end.Level = true, r.Range(-2, 9)
	}
	scn.Links = []Link{{}}
	l := &scn.Links[0]
	if realIsServer {
		end.Server = r.PickS([]string{"mini", "mini", "nethttp"})
		l.Server = end
	} else {
		l.Client = end
	}
	return scn, l, end, realIsServer
}

func setTasks(l *Link, realIsServer bool, ts []TaskCfg) {
	if realIsServer {
		l.STasks = ts
	} else {
		l.CTasks = ts
	}
}

func genC10(r *PRNG, tier string) *Scenario {
	class := r.PickS([]string{"write-fault", "write-fault", "write-fault", "invalid-requests", "deadlines"})
	scn, l, end, realIsServer := genSoloWriter(r, "C10", class)
	np := 0
	if r.Chance(1, 4) {
		np = 1
		scn.Prepared = []Prepared{{MT: r.Range(1, 2), Pay: Payload{Len: genLen(r, 4096, false), Seed: r.Uint64() >> 1}}}
	}
	var ops []WOp
	n := r.Range(1, 8)
	badPM := -1
	if class == "invalid-requests" && r.Chance(1, 3) {
		// an oversized control message as a PreparedMessage: refused at creation or at every send, never half accepted
		badPM = len(scn.Prepared)
		scn.Prepared = append(scn.Prepared, Prepared{MT: r.Pick([]int{8, 9, 10}), Code: 1000, Pay: Payload{Len: r.Pick([]int{126, 200, 5000}), Seed: 6}})
	}
	for i := 0; i < n; i++ {
		if badPM >= 0 && r.Chance(1, 2) {
			ops = append(ops, WOp{Kind: "prep", PM: badPM})
		}
		op := genWriteOp(r, effW(end.WriteBuf), false, np)
		if op.Pay.Len > 20000 {
			op.Pay.Len = r.Range(0, 20000)
			fixChunks(&op)
		}
		ops = append(ops, op)
		if op.End == "implicit" {
			ops = append(ops, WOp{Kind: "msg", MT: 2, Pay: Payload{Len: r.Range(0, 200), Seed: 7}})
		}
		if r.Chance(1, 4) {
			ops = append(ops, WOp{Kind: "ctl", MT: r.Pick([]int{9, 10}), Pay: Payload{Len: r.Range(0, 125), Seed: r.Uint64() >> 1}, DlMs: int64(r.Pick([]int{0, 60000, 3600000}))})
		}
		if (class == "invalid-requests" && r.Chance(1, 2)) || r.Chance(1, 10) {
			ops = append(ops, genInvalidOp(r))
		}
		if class == "deadlines" || r.Chance(1, 6) {
			dl := int64(r.Pick([]int{0, 1, 1000, 60000, 3600000}))
			ops = append(ops, WOp{Kind: "wdl", DlMs: dl})
			if class == "deadlines" && r.Chance(1, 3) {
				// let time pass: a finite deadline that lapses makes the next flush time out (and the connection fail-stop);
				// a deadline that has been replaced or cleared must not
				ops = append(ops, WOp{Kind: "sleep", DlMs: int64(r.Pick([]int{2, 500, 1500, 70000}))})
				if r.Bool() {
					ops = append(ops, WOp{Kind: "wdl", DlMs: int64(r.Pick([]int{0, 3600000}))})
				}
			}
		}
	}
	if class == "deadlines" && r.Chance(1, 3) {
		// an already expired deadline: the next flush must time out, and the connection is then dead
		k := r.Intn(len(ops) + 1)
		ops = append(ops[:k:k], append([]WOp{{Kind: "wdl", DlMs: -1}}, ops[k:]...)...)
	}
	tasks := []TaskCfg{{Kind: "writer", W: ops}}
	for i := r.Pick([]int{0, 0, 1, 2}); i > 0; i-- {
		var cops []WOp
		for k := r.Range(1, 4); k > 0; k-- {
			cops = append(cops, WOp{Kind: "ctl", MT: r.Pick([]int{9, 10}), Pay: Payload{Len: r.Pick([]int{0, 9, 125}), Seed: r.Uint64() >> 1}, DlMs: int64(r.Pick([]int{0, 7200000}))})
		}
		tasks = append(tasks, TaskCfg{Kind: "ctl", W: cops})
	}
	setTasks(l, realIsServer, tasks)
	cc := ConnCfg{} // the scripted peer turns its inbound direction into a sink after the handshake
	if class == "write-fault" {
		f := OpFault{Side: "w", AfterHead: true, K: r.Range(0, 3*n+4), Kind: writeFaultKinds[r.Intn(len(writeFaultKinds))], N: r.Pick([]int{0, 1, 2, 5, 13, 14, 100, 1000})}
		if realIsServer {
			cc.FaultsB = []OpFault{f}
		} else {
			cc.FaultsA = []OpFault{f}
		}
	}
	scn.Net = NetCfg{Conns: []ConnCfg{cc}}
	return scn
}

// invalidRequest: is this history record part of a request the API must refuse?
func invalidRequest(r *OpRec) bool {
	switch r.MsgType {
	case 1, 2:
		return false
	case 8, 9, 10:
		return r.PayLen > 125
	}
	switch r.Op {
	case "WriteMessage", "NextWriter", "Message", "WriteControl", "WritePreparedMessage":
		return true // bad message type
	}
	return false
}

func isMessageLevelWrite(op string) bool {
	switch op {
	case "WriteMessage", "NextWriter", "WriteControl", "WriteJSON", "WritePreparedMessage", "Close":
		return true
	}
	return false
}

// writeSideFailure finds the first failing write-side transport call after
// the handshake head; ok=false if none.
func writeSideFailure(e *RealEnd) (step uint64, idx int, entry CallEntry, ok bool) {
	calls := e.Net.Calls()
	head := int64(headLen(e))
	var written int64
	for i, c := range calls {
		switch c.Op {
		case 'W':
			before := written
			written += int64(c.N)
			if before < head {
				continue
			}
			if c.Err != 0 {
				return c.Step, i, c, true
			}
		case 'w', 'D':
			if written >= head && c.Err != 0 {
				return c.Step, i, c, true
			}
		}
	}
	return 0, -1, CallEntry{}, false
}

func oracleC10(run *Run) {
	commonChecks(run)
	for _, p := range run.Panics {
		run.fail("C10", "panic", "panic", "%s", p)
	}
	e := realOfLink(run, 0)
	if e == nil {
		return // the fault hit the handshake: C16's matter
	}
	who := endName(e)
	if run.Reason != "done" {
		run.fail("C10", "stuck", run.Reason, "%s: write programs did not finish (%s)", who, run.Reason)
		return
	}
	failStep, failIdx, failEntry, failed := writeSideFailure(e)
	calls := e.Net.Calls()
	kind := "none"
	if failed {
		kind = faultNames[failEntry.Fault] + "@" + string(rune(failEntry.Op))
	}
	// (a) the wire: valid frames, at most one incomplete frame, nothing after the failure
	raw := wsTap(e)
	tv := decodeTap(raw, !e.IsServer, e.Negotiated)
	if tv.V != nil {
		run.fail("C10", "malformed-wire", tv.V.Rule, "%s wrote a malformed stream (failure: %s): %s", who, kind, tv.V.Error())
		return
	}
	if failed {
		for _, c := range calls[failIdx+1:] {
			if c.Op == 'W' && c.N > 0 {
				run.fail("C10", "written-after-failure", kind, "%s: %d bytes were written at step %d although the transport had failed at step %d (%s)", who, c.N, c.Step, failStep, kind)
				break
			}
		}
		run.Obligations++
	} else {
		if tv.Tail != len(raw) || tv.Open != nil {
			run.fail("C10", "incomplete-frame", "no-failure", "%s: the stream ends inside a frame or message although no transport call failed", who)
		}
	}
	// (b) after the failure every message-level write fails
	nLater := 0
	for _, t := range e.Tasks {
		for _, r := range t.Hist {
			if !isMessageLevelWrite(r.Op) || r.Teardown {
				continue
			}
			if failed && r.Invoke > failStep {
				nLater++
				if r.Err == "" {
					run.fail("C10", "write-after-failure-succeeded", kind+"/"+r.Op, "%s: %s (invoked at step %d) returned nil although the transport had failed at step %d (%s)", who, r.Op, r.Invoke, failStep, kind)
				}
			}
		}
	}
	run.Obligations += nLater
	// (c) invalid requests fail, write nothing, and do not poison
	for _, t := range e.Tasks {
		var openInvalid *OpRec
		chunkFailed := false
		for _, r := range t.Hist {
			if r.Teardown {
				continue
			}
			if r.Op == "NextWriter" {
				chunkFailed = false
			}
			if len(r.Op) > 6 && r.Op[:6] == "Write:" && r.Err != "" {
				chunkFailed = true // a refused Write on a valid message is C01's matter; its Close then fails by design
			}
			inv := invalidRequest(r)
			switch r.Op {
			case "WriteMessage", "WriteControl", "WritePreparedMessage":
				if inv && r.Err == "" {
					run.fail("C10", "invalid-accepted", r.Op, "%s: %s accepted an invalid request (type %d, %d bytes)", who, r.Op, r.MsgType, r.PayLen)
				}
				if inv {
					run.Obligations++
				}
			case "NextWriter":
				if inv && (r.MsgType < 8 || r.MsgType > 10) && r.Err == "" {
					run.fail("C10", "invalid-accepted", r.Op, "%s: NextWriter accepted message type %d", who, r.MsgType)
				}
				if inv && r.Err == "" {
					openInvalid = r
				}
			case "Message":
				if inv && r.Err == "" {
					run.fail("C10", "invalid-accepted", "fragmented-control", "%s: a control message of %d bytes written in several calls was reported as sent", who, r.PayLen)
				}
				openInvalid = nil
				if inv {
					run.Obligations++
				}
			}
			if !inv && !failed && r.Err != "" && isMessageLevelWrite(r.Op) {
				// no transport failure in this run: a valid request must succeed,
				// unless the application's own expired deadline caused a timeout (which is a failure, handled above)
				if !(r.Op == "Close" && chunkFailed) {
					run.fail("C10", "valid-refused", r.Op, "%s: %s of a valid request (type %d, %d bytes) failed with %s (%s) although no transport call failed; an earlier invalid request must not poison the connection", who, r.Op, r.MsgType, r.PayLen, r.Err, r.ErrText)
				}
			}
		}
		_ = openInvalid
	}
	// the wire carries exactly the accepted messages (prefix, if the transport failed)
	checkTapPrefix(run, "C10", e, tv, failed)
	// (d) deadlines
	checkDeadlines(run, e, tv)
}


// checkTapPrefix: data messages on the wire are, in order, the messages the
// API accepted; with a transport failure the wire may stop early.
func checkTapPrefix(run *Run, prop string, e *RealEnd, tv *TapView, failed bool) {
	who := endName(e)
	sent, failedMsgs, _ := sentLog(findTask(e, "writer"))
	// candidates in call order: accepted messages, plus (after a failure) messages whose op failed but may be partly or fully on the wire
	var all []Msg
	if wt := findTask(e, "writer"); wt != nil {
		for _, r := range wt.Hist {
			switch r.Op {
			case "WriteMessage", "WriteJSON", "WritePreparedMessage", "Message":
				if r.MsgType == 1 || r.MsgType == 2 {
					all = append(all, Msg{MT: r.MsgType, Payload: r.Data, Note: r.Note, Rec: r})
				}
			}
		}
	}
	_ = failedMsgs
	var data []wsframe.Item
	for _, it := range tv.Items {
		if !it.Control {
			data = append(data, it)
		}
	}
	// every wire message must match, in order, some message op of the program
	// (accepted, failed, or closed implicitly by an op whose own result says nothing about it) — a subsequence;
	// invalid requests are not in that list, so anything they wrote is unattributable
	j := 0
	matched := map[*OpRec]bool{}
	for i, it := range data {
		found := false
		for ; j < len(all); j++ {
			if int(it.Opcode) == all[j].MT && string(it.Payload) == string(all[j].Payload) {
				found = true
				matched[all[j].Rec] = true
				j++
				break
			}
		}
		if !found {
			run.fail(prop, "wire-payload", "unattributable", "%s: wire message %d (%d bytes) is not one of the messages the application wrote, in order", who, i, len(it.Payload))
			return
		}
		run.Obligations++
	}
	// every message the API reported as sent must be on the wire
	_ = failed
	_ = sent
	for _, m := range sent {
		if !matched[m.Rec] {
			run.fail(prop, "accepted-not-on-wire", "missing", "%s: a message of %d bytes was reported as sent but is not complete on the wire (%d complete messages there)", who, len(m.Payload), len(data))
			break
		}
	}
}

// checkDeadlines: the first transport Write of every frame is preceded, since
// the previous frame's last Write, by SetWriteDeadline(v) with v the value the
// frame must be written under.
func checkDeadlines(run *Run, e *RealEnd, tv *TapView) {
	who := endName(e)
	calls := e.Net.Calls()
	head := int64(headLen(e))
	// controller frames by payload -> expected absolute deadline
	type exp struct {
		dl int64
		n  int
	}
	ctlDl := map[string][]int64{}
	for _, t := range e.Tasks {
		for _, r := range t.Hist {
			if r.Op == "WriteControl" {
				abs := int64(-1)
				if r.N != 0 {
					abs = r.TInvoke + int64(r.N)*1e6
				}
				k := fmt.Sprintf("%d:%x", r.MsgType, r.Data)
				ctlDl[k] = append(ctlDl[k], abs)
			}
		}
	}
	// writer deadline over steps
	type wd struct {
		step uint64
		abs  int64
	}
	var wds []wd
	if wt := findTask(e, "writer"); wt != nil {
		for _, r := range wt.Hist {
			if r.Op == "SetWriteDeadline" {
				abs := int64(-1)
				if r.N != 0 {
					abs = r.TInvoke + int64(r.N)*1e6
				}
				wds = append(wds, wd{r.Return, abs})
			}
		}
	}
	writerDl := func(step uint64) int64 {
		v := int64(-1)
		for _, w := range wds {
			if w.step <= step {
				v = w.abs
			}
		}
		return v
	}
	// walk the call log, tracking stream offsets; what counts is the deadline ARMED on the transport when
	// the first Write of a frame is made (a library may skip redundant SetWriteDeadline calls, it may not
	// write a frame under another deadline)
	var off int64
	fi := 0
	frames := tv.Frames
	for _, c := range calls {
		switch c.Op {
		case 'W':
			start := off - head
			off += int64(c.N)
			if start < 0 || c.N == 0 {
				continue
			}
			lastSet, lastSetStep := c.Dl, c.Step
			// does a frame start inside this Write? (a prepared message may put several frames into one Write)
			checked := false
			for fi < len(frames) && int64(frames[fi].Start) < start+int64(c.N) {
				f := frames[fi]
				fi++
				if int64(f.Start) < start || checked {
					continue
				}
				checked = true
				var want int64
				var desc string
				if f.IsControl() {
					k := fmt.Sprintf("%d:%x", f.Opcode, f.Payload)
					if l := ctlDl[k]; len(l) > 0 {
						want, desc = l[0], "its WriteControl deadline argument"
						for _, v := range l {
							if v == lastSet {
								want = v
							}
						}
					} else {
						want, desc = writerDl(lastSetStep), "the connection's write deadline (control message through a message writer)"
					}
				} else {
					want, desc = writerDl(lastSetStep), "the value last given to SetWriteDeadline"
				}
				if lastSet != want {
					run.fail("C10", "wrong-deadline", map[bool]string{true: "control", false: "data"}[f.IsControl()], "%s: the frame at offset %d (opcode %d) was written under deadline %d ns, expected %s = %d ns", who, f.Start, f.Opcode, lastSet, desc, want)
					return
				}
				run.Obligations++
			}
			_ = checked
		}
	}
}

// sweepC10: one write program per 120 runs; run k injects fault kind k mod 4
// at write-side transport operation k / 4 (0..29) after the handshake.
func sweepC10(r *PRNG, k, S int) *Scenario {
	var scn *Scenario
	for {
		scn = genC10(r, "thorough")
		if scn.Class == "write-fault" {
			break
		}
	}
	scn.Class = "write-fault-sweep"
	cc := &scn.Net.Conns[0]
	f := OpFault{Side: "w", AfterHead: true, K: k / 4, Kind: writeFaultKinds[k%4], N: []int{0, 1, 5, 14, 100}[(k/4)%5]}
	if len(cc.FaultsA) > 0 {
		cc.FaultsA = []OpFault{f}
	} else {
		cc.FaultsB = []OpFault{f}
	}
	return scn
}
