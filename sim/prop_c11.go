package wsim

import (
	"fmt"

	"wsim/wsframe"
)

// C11 — documented concurrency contract: race-free, frames atomic, WriteControl bounded.

func init() {
	register(&PropDef{ID: "C11", Num: 11, Race: true, Gen: genC11, Oracle: oracleC11, Level: "exploration"})
}

func genC11(r *PRNG, tier string) *Scenario {
	o := pairOpts{minWBuf: 0, controllers: 3, noCtlMsgs: false}
	if r.Chance(1, 3) {
		// several connections sharing one PreparedMessage and one write buffer pool
		o.links, o.sharePool, o.prepared, o.prepMore = 2, r.Bool(), true, r.Bool()
		o.controllers = 1
	}
	scn := genPair(r, tier, "C11", o)
	scn.Class = "contended"
	if o.links > 1 {
		scn.Class = "contended-shared"
	}
	l := &scn.Links[0]
	// controllers get deadlines around the stall lengths
	dls := []int{0, 100, 1000, 1500, 30000, 3600000, -50}
	for _, ts := range [][]TaskCfg{l.CTasks, l.STasks} {
		for i := range ts {
			if ts[i].Kind != "ctl" {
				continue
			}
			for k := range ts[i].W {
				if ts[i].W[k].Kind == "ctl" {
					ts[i].W[k].DlMs = int64(dls[r.Intn(len(dls))])
				}
			}
			if r.Bool() {
				ts[i].W = append([]WOp{{Kind: "waitstep", Lvl: r.Range(0, 400)}}, ts[i].W...)
			}
		}
	}
	// stalls that hold whoever is inside the transport
	durs := []int64{10, 500, 1500, 60000, 600000}
	var stalls []Stall
	for k := r.Pick([]int{0, 1, 1, 2, 3}); k > 0; k-- {
		stalls = append(stalls, Stall{Dir: r.PickS([]string{"ab", "ba"}), Side: "w", At: int64(r.Pick([]int{0, 1, 2, 6, 14, 100, r.Range(0, 5000)})), DurMs: durs[r.Intn(len(durs))]})
	}
	scn.Net.Conns[0].Stalls = stalls
	if r.Chance(1, 2) {
		scn.Sched.TickPermil = r.Pick([]int{5, 50, 200})
	}
	// Close at any moment, from its own goroutine
	if r.Chance(1, 3) {
		closer := TaskCfg{Kind: "closer", W: []WOp{{Kind: "waitstep", Lvl: r.Range(0, 600)}, {Kind: "close"}}}
		if r.Bool() {
			l.CTasks = append(l.CTasks, closer)
		} else {
			l.STasks = append(l.STasks, closer)
		}
	}
	scn.Sched.IdleHorizon = 4000 * 1000
	return scn
}

func oracleC11(run *Run) {
	commonChecks(run)
	for _, p := range run.Panics {
		run.fail("C11", "panic", "panic", "%s", p)
	}
	if run.Deadlock != "" || run.Leaked > 0 {
		run.fail("C11", "deadlock", "leaked", "%d tasks were still blocked inside the library after every connection had been closed (%s)", run.Leaked, clip(run.Deadlock))
	}
	var pairs [][2]*RealEnd
	for li := range run.Scn.Links {
		c, s := pairEnds(run, li)
		if c == nil {
			run.fail("HARNESS", "no-connection", "hs", "pair handshake failed on link %d", li)
			return
		}
		pairs = append(pairs, [2]*RealEnd{c, s}, [2]*RealEnd{s, c})
	}
	for _, pr := range pairs {
		e, peer := pr[0], pr[1]
		who := endName(e)
		raw := wsTap(e)
		tv := decodeTap(raw, !e.IsServer, e.Negotiated)
		if tv.V != nil {
			run.fail("C11", "frames-not-contiguous", tv.V.Rule, "%s wrote a malformed stream under concurrency: %s", who, tv.V.Error())
			continue
		}
		// data on the wire = the writer's messages, in order (a subsequence: later ones may be missing after a failure)
		var all []Msg
		if wt := findTask(e, "writer"); wt != nil {
			for _, r := range wt.Hist {
				switch r.Op {
				case "WriteMessage", "WriteJSON", "WritePreparedMessage", "Message":
					if r.MsgType == 1 || r.MsgType == 2 {
						all = append(all, Msg{MT: r.MsgType, Payload: r.Data, Rec: r})
					}
				}
			}
		}
		j := 0
		var wire []Msg
		for i, it := range tv.Items {
			if it.Control {
				continue
			}
			found := false
			for ; j < len(all); j++ {
				if int(it.Opcode) == all[j].MT && string(it.Payload) == string(all[j].Payload) {
					found = true
					j++
					break
				}
			}
			if !found {
				run.fail("C11", "wire-payload", "unattributable", "%s: wire item %d (%d bytes) is not one of the writer's messages in order", who, i, len(it.Payload))
				break
			}
			wire = append(wire, Msg{MT: int(it.Opcode), Payload: it.Payload})
			run.Obligations++
		}
		// an unfinished message at the end of the stream may be partly read, never reported complete
		if tv.Open != nil || tv.Tail != len(raw) {
			mt := 0
			if tv.Open != nil {
				mt = int(tv.Open.Opcode)
			} else if tv.Tail+1 < len(raw) {
				mt = int(raw[tv.Tail] & 0x0f)
			}
			if mt == 1 || mt == 2 {
				wire = append(wire, Msg{MT: mt, Partial: true, Opaque: true})
			}
		}
		// what the peer read is a prefix of what is on the wire
		obs, _ := observations(findTask(peer, "reader"))
		term := ""
		for _, o := range obs {
			if o.Kind == "join" {
				term = o.Rec.Note
			}
		}
		// JSON reader compares canonical forms: TrimRight handled in checkDelivery
		checkDelivery(run, "C11", who+"->"+endName(peer), wire, obs, term)
		// control frames: every control frame on the wire is attributable, none is duplicated
		checkControlAttribution(run, "C11", e, peer, tv)
		// WriteControl is bounded by its deadline; lock time-outs write nothing and do not poison
		checkWriteControl(run, e, tv)
	}
}

func checkControlAttribution(run *Run, prop string, e, peer *RealEnd, tv *TapView) {
	who := endName(e)
	want := map[string]int{}
	for _, t := range e.Tasks {
		for _, r := range t.Hist {
			if (r.Op == "WriteControl" || r.Op == "WriteMessage" || r.Op == "Message" || r.Op == "WritePreparedMessage") && r.MsgType >= 8 {
				// a failed call may still have written its frame (e.g. transport error after the write): allow, never require
				want[fmt.Sprintf("%d:%x", r.MsgType, r.Data)]++
			}
		}
	}
	pings := map[string]int{}
	for _, t := range peer.Tasks {
		for _, r := range t.Hist {
			if (r.Op == "WriteControl" || r.Op == "WriteMessage" || r.Op == "Message" || r.Op == "WritePreparedMessage") && r.MsgType == 9 {
				pings[string(r.Data)]++
			}
		}
	}
	closes := 0
	for _, it := range tv.Items {
		if !it.Control {
			continue
		}
		k := fmt.Sprintf("%d:%x", it.Opcode, it.Payload)
		switch {
		case want[k] > 0:
			want[k]--
		case it.Opcode == wsframe.OpPong && pings[string(it.Payload)] > 0:
			pings[string(it.Payload)]--
		case it.Opcode == wsframe.OpClose && closes == 0:
			closes++
		default:
			run.fail(prop, "wire-control", "unattributable", "%s: control frame opcode %d payload %s is on the wire more often than it was sent", who, it.Opcode, short(it.Payload))
			return
		}
		run.Obligations++
	}
}

func checkWriteControl(run *Run, e *RealEnd, tv *TapView) {
	who := endName(e)
	calls := e.Net.Calls()
	failStep, _, _, failed := writeSideFailure(e)
	// step of the close frame and of conn.Close
	closeStep := ^uint64(0)
	for _, f := range tv.Frames {
		if f.Opcode == wsframe.OpClose {
			closeStep, _ = StepOfByte(e.Net.TapChunks(), int64(headLen(e)+f.End-1))
			break
		}
	}
	connClose := ^uint64(0)
	for _, cl := range calls {
		if cl.Op == 'C' {
			connClose = cl.Step
			break
		}
	}
	for _, t := range e.Tasks {
		for _, r := range t.Hist {
			if r.Teardown {
				continue
			}
			if r.Op == "WriteControl" && r.N < 0 {
				// a deadline that has already passed: a time-out at once, nothing written
				if r.Err != "timeout" && r.Err != "ErrCloseSent" && !invalidRequest(r) {
					run.fail("C11", "expired-deadline-ignored", r.Err, "%s: WriteControl with a deadline in the past returned %q", who, r.Err)
				}
				if r.TReturn != r.TInvoke {
					run.fail("C11", "writecontrol-late", "expired", "%s: WriteControl with a deadline in the past took %d ns", who, r.TReturn-r.TInvoke)
				}
			}
			if r.Op == "WriteControl" && r.N > 0 {
				d := r.TInvoke + int64(r.N)*1e6
				if r.TReturn > d {
					run.fail("C11", "writecontrol-late", "late", "%s: WriteControl with deadline t=%d ns returned at t=%d ns (%s)", who, d, r.TReturn, r.Err)
				}
				run.Obligations++
				if r.Err == "timeout" {
					// did it enter the transport? it would have set its own deadline there
					entered := false
					for _, cl := range calls {
						if cl.Op == 'w' && cl.Arg == d && cl.Step >= r.Invoke && cl.Step <= r.Return {
							entered = true
						}
					}
					if !entered {
						// lock time-out: its uniquely tagged frame must not be on the wire
						n := 0
						sentSame := 0
						for _, f := range tv.Frames {
							if int(f.Opcode) == r.MsgType && string(f.Payload) == string(r.Data) {
								n++
							}
						}
						for _, t2 := range e.Tasks {
							for _, r2 := range t2.Hist {
								if r2 != r && r2.MsgType == r.MsgType && string(r2.Data) == string(r.Data) && (r2.Op == "WriteControl" || r2.Op == "WriteMessage" || r2.Op == "Message") {
									sentSame++
								}
							}
						}
						if n > sentSame && len(r.Data) >= 8 {
							run.fail("C11", "lock-timeout-wrote", "wrote", "%s: WriteControl timed out waiting for the connection but its frame (%s) is on the wire", who, short(r.Data))
						}
						run.Stats.Probes[pLockTimeout]++
					}
				}
			}
			// every failing message-level write must be explained
			if isMessageLevelWrite(r.Op) && r.Err != "" && !invalidRequest(r) {
				explained := false
				switch {
				case r.Op == "WriteControl" && r.Err == "timeout":
					explained = true
				case failed && failStep <= r.Return:
					explained = true
				case closeStep <= r.Return:
					explained = true
				case connClose <= r.Return:
					explained = true
				case r.Op == "Close" || r.Op == "Write:rf":
					explained = true // consequences of an earlier failed Write on the same writer are judged there
				}
				if !explained {
					run.fail("C11", "unexplained-write-failure", r.Op+"/"+r.Err, "%s: %s failed with %s (%s) at step %d although no transport call had failed, no close frame had been sent and the connection had not been closed", who, r.Op, r.Err, r.ErrText, r.Return)
				}
			}
		}
	}
}
