package wsim

import (
	"encoding/base64"
	"fmt"
	"net/url"
	"strings"
)

// C14 — client handshake: connect iff the reply proves the server accepted this request.

func init() {
	register(&PropDef{ID: "C14", Num: 14, Gen: genC14, Oracle: oracleC14, Level: "exploration"})
}

type hdrForm struct {
	lines []string
	ok    bool
}

var upgradeForms = []hdrForm{
	{[]string{"websocket"}, true}, {[]string{"WebSocket"}, true}, {[]string{"foo, websocket"}, true},
	{[]string{"foo", "websocket"}, true}, {[]string{"  websocket  "}, true}, {[]string{"websocket, bar"}, true},
	{[]string{"h2c,WEBSOCKET"}, true},
	{nil, false}, {[]string{"websockets"}, false}, {[]string{"web socket"}, false}, {[]string{"xwebsocket"}, false},
	{[]string{"\"websocket\""}, false}, {[]string{"foo"}, false},
}

var connectionForms = []hdrForm{
	{[]string{"Upgrade"}, true}, {[]string{"upgrade"}, true}, {[]string{"keep-alive, Upgrade"}, true},
	{[]string{"keep-alive", "UPGRADE"}, true}, {[]string{"Upgrade , foo"}, true},
	{nil, false}, {[]string{"close"}, false}, {[]string{"xupgrade"}, false}, {[]string{"upgrades"}, false}, {[]string{"up grade"}, false},
}

var urlForms = []struct {
	u    string
	bad  bool
	host string // expected Host header
	uri  string // expected request URI
}{
	{"ws://example.test/", false, "example.test", "/"},
	{"ws://example.test", false, "example.test", "/"},
	{"ws://example.test:8080/a/b?x=1&y=%20z", false, "example.test:8080", "/a/b?x=1&y=%20z"},
	{"ws://10.1.2.3/p", false, "10.1.2.3", "/p"},
	{"ws://[2001:db8::1]/v6?q", false, "[2001:db8::1]", "/v6?q"},
	{"ws://[::1]:9000/v6p", false, "[::1]:9000", "/v6p"},
	{"ws://example.test/%41%2Fb?", false, "example.test", "/%41%2Fb?"},
	{"http://example.test/", true, "", ""},
	{"https://example.test/", true, "", ""},
	{"example.test/x", true, "", ""},
	{"ftp://example.test/", true, "", ""},
	{"ws://user@example.test/", true, "", ""},
	{"ws://user:pw@example.test/", true, "", ""},
	{"wss://u:p@example.test/", true, "", ""},
}

var ownedHeaders = []string{"Upgrade", "Connection", "Sec-Websocket-Key", "Sec-Websocket-Version", "Sec-Websocket-Extensions"}

func genC14(r *PRNG, tier string) *Scenario {
	scn := &Scenario{Prop: "C14", Class: "client-handshake", Seed: r.Uint64() >> 1, Sched: genSched(r), HS: &HSScn{}}
	n := r.Range(1, 4)
	many := r.Chance(1, 12)
	if many {
		// a long history of dials in one run: keys must stay fresh and stale proofs must stay worthless
		scn.Class = "client-handshake-many-dials"
		n = r.Range(17, 40)
	}
	for i := 0; i < n; i++ {
		uf := urlForms[r.Intn(len(urlForms))]
		if r.Chance(2, 3) {
			uf = urlForms[r.Intn(7)]
		}
		d := HSDial{URL: uf.u, Hooks: r.PickS([]string{"c", "d", "dc"}), Comp: r.Bool(), RBuf: genBuf(r), WBuf: genBuf(r)}
		if r.Chance(1, 3) {
			d.Subprotocols = [][]string{{"chat"}, {"chat", "superchat"}, {"v1.x", "v2"}}[r.Intn(3)]
		}
		d.Header = map[string][]string{}
		if r.Chance(1, 2) {
			d.Header["Origin"] = []string{"http://origin.test"}
		}
		if r.Chance(1, 3) {
			d.Header["X-Custom"] = []string{"a", "b c"}
		}
		if r.Chance(1, 4) {
			d.Header["Host"] = []string{"override.test:77"}
		}
		if r.Chance(1, 5) && len(d.Subprotocols) == 0 {
			d.Header["Sec-Websocket-Protocol"] = []string{"fromheader"}
		}
		if r.Chance(1, 8) {
			d.Header[ownedHeaders[r.Intn(len(ownedHeaders))]] = []string{"x"}
		}
		if r.Chance(1, 12) && len(d.Subprotocols) > 0 {
			d.Header["Sec-Websocket-Protocol"] = []string{"dup"}
		}
		up := upgradeForms[r.Intn(len(upgradeForms))]
		co := connectionForms[r.Intn(len(connectionForms))]
		if r.Chance(1, 2) {
			up, co = upgradeForms[r.Intn(7)], connectionForms[r.Intn(5)]
		}
		rep := Reply{Status: 101, Accept: "good", Upgrade: up.lines, Connection: co.lines}
		switch r.Intn(8) {
		case 0:
			rep.Status = r.Pick([]int{200, 204, 301, 400, 403, 404, 426, 500, 503, 100})
		case 1, 2:
			rep.Accept = r.PickS([]string{"stale", "stale", "other", "mangled", "missing", "lower", "space"})
		}
		if r.Chance(1, 3) {
			rep.BodyLen = r.Pick([]int{1, 100, 1023, 1024, 1025, 4096})
		}
		if r.Chance(1, 10) {
			rep.TruncAt = r.Range(1, 120)
		}
		if r.Chance(1, 4) {
			rep.Extra = append(rep.Extra, [2]string{"Set-Cookie", "a=b"}, [2]string{"X-Server", "byz"})
		}
		if rep.Status == 101 && rep.BodyLen > 0 && r.Bool() {
			rep.BodyLen = 0
		}
		if many {
			rep = Reply{Status: 101, Accept: r.PickS([]string{"good", "stale", "stale"}), StaleBack: r.Pick([]int{1, 2, 8, 15, 16, 17, 32}), Upgrade: []string{"websocket"}, Connection: []string{"Upgrade"}}
			if rep.StaleBack > i {
				rep.Accept = "good"
			}
		}
		if rep.Status != 101 && rep.BodyLen > 10 && rep.TruncAt == 0 && r.Chance(1, 3) {
			// a refusal whose body is cut short: by EOF, or by silence that only the handshake time-out ends
			rep.BodySent = r.Range(1, rep.BodyLen-1)
			if r.Bool() {
				rep.CloseAfter = true
			} else {
				d.HsTimeoutMs = 2000
			}
		}
		d.Backend = Backend{Kind: "byz", Reply: rep}
		scn.HS.Dials = append(scn.HS.Dials, d)
	}
	if r.Bool() && n > 1 {
		// one Dialer value serves every dial of the run (Dialer-level settings are then those of dial 0)
		scn.HS.SharedDialer = true
		d0 := scn.HS.Dials[0]
		for i := range scn.HS.Dials {
			d := &scn.HS.Dials[i]
			d.Hooks, d.Comp, d.RBuf, d.WBuf, d.Subprotocols = d0.Hooks, d0.Comp, d0.RBuf, d0.WBuf, d0.Subprotocols
			if len(d.Subprotocols) > 0 {
				delete(d.Header, "Sec-Websocket-Protocol")
			}
		}
	}
	if r.Chance(1, 4) {
		// the system random source hands out its bytes in short reads (legal): keys must still be 16 random bytes
		scn.HS.ShortRand = r.Range(1, 15)
	}
	scn.Net = NetCfg{DefCap: genCap(r)}
	scn.Sched.IdleHorizon = 2000
	return scn
}

func formOK(forms []hdrForm, lines []string) bool {
	for _, f := range forms {
		if strings.Join(f.lines, "\x00") == strings.Join(lines, "\x00") {
			return f.ok
		}
	}
	return false
}

func oracleC14(run *Run) {
	commonChecks(run)
	if run.HS == nil {
		return
	}
	keys := map[string]int{}
	for i, res := range run.HS.Dials {
		d := &run.Scn.HS.Dials[i]
		who := fmt.Sprintf("dial %d (%s)", i, d.URL)
		if res.Panic != "" {
			run.fail("C14", "panic", "panic", "%s: %s", who, res.Panic)
			continue
		}
		if !res.Returned {
			if run.Reason == "done" {
				run.fail("C14", "dial-hung", "hung", "%s did not return", who)
			}
			continue
		}
		run.Obligations++
		// 1. URL and caller-header refusals happen before any network activity
		var uf *struct {
			u    string
			bad  bool
			host string
			uri  string
		}
		for k := range urlForms {
			if urlForms[k].u == d.URL {
				uf = &urlForms[k]
			}
		}
		owned := false
		for _, k := range ownedHeaders {
			if _, ok := d.Header[k]; ok {
				owned = true
			}
		}
		if _, ok := d.Header["Sec-Websocket-Protocol"]; ok && len(d.Subprotocols) > 0 {
			owned = true
		}
		if uf != nil && (uf.bad || owned) {
			what := "url"
			if !uf.bad {
				what = "owned-header"
			}
			if res.Conn != nil || res.Err == nil {
				run.fail("C14", "bad-request-accepted", what, "%s: Dial did not refuse it", who)
			}
			if len(res.Hooks) > 0 {
				run.fail("C14", "network-before-refusal", what, "%s: a dial hook was invoked (%s %s) although the request must be refused before any network activity", who, res.Hooks[0].Hook, res.Hooks[0].Addr)
			}
			continue
		}
		// 2. the request on the wire
		b := &res.Backend
		if b.HTTPParsed == nil {
			if res.Conn != nil {
				run.fail("C14", "connected-without-request", "norequest", "%s returned a connection although the server saw no parseable request", who)
			}
			continue
		}
		rq := b.HTTPParsed
		bad := func(what, format string, a ...interface{}) {
			run.fail("C14", "request-malformed", what, who+": "+format, a...)
		}
		if rq.Method != "GET" {
			bad("method", "method %q", rq.Method)
		}
		if uf != nil {
			wantHost := uf.host
			if hv := d.Header["Host"]; len(hv) > 0 {
				wantHost = hv[0]
			}
			if rq.Host != wantHost {
				bad("host", "Host %q, expected %q", rq.Host, wantHost)
			}
			if rq.RequestURI != uf.uri {
				bad("uri", "request URI %q, expected %q", rq.RequestURI, uf.uri)
			}
		}
		if !ciContains(rq.Header["Upgrade"], "websocket") || !ciContains(rq.Header["Connection"], "upgrade") {
			bad("upgrade-headers", "Upgrade %q Connection %q", rq.Header["Upgrade"], rq.Header["Connection"])
		}
		if v := rq.Header["Sec-Websocket-Version"]; len(v) != 1 || v[0] != "13" {
			bad("version", "Sec-WebSocket-Version %q", v)
		}
		kb, err := base64.StdEncoding.DecodeString(b.Key)
		if err != nil || len(kb) != 16 || len(rq.Header["Sec-Websocket-Key"]) != 1 {
			bad("key", "Sec-WebSocket-Key %q", rq.Header["Sec-Websocket-Key"])
		}
		if err == nil && len(kb) == 16 {
			zeros := 0
			for k := 15; k >= 0 && kb[k] == 0; k-- {
				zeros++
			}
			if zeros >= 6 {
				run.fail("C14", "key-not-random", "zero-tail", "%s: the last %d bytes of the 16-byte nonce are zero (the random source returned short reads of %d bytes): the key is not 16 random bytes", who, zeros, run.Scn.HS.ShortRand)
			}
		}
		if prev, dup := keys[b.Key]; dup {
			run.fail("C14", "key-reused", "reused", "%s sent the same Sec-WebSocket-Key as dial %d", who, prev)
		}
		keys[b.Key] = i
		wantProto := strings.Join(d.Subprotocols, ", ")
		if hv := d.Header["Sec-Websocket-Protocol"]; len(hv) > 0 && len(d.Subprotocols) == 0 {
			wantProto = strings.Join(hv, ", ")
		}
		if got := strings.Join(rq.Header["Sec-Websocket-Protocol"], ", "); got != wantProto {
			bad("subprotocols", "Sec-WebSocket-Protocol %q, expected %q", got, wantProto)
		}
		ext := strings.Join(rq.Header["Sec-Websocket-Extensions"], ",")
		if d.Comp != strings.Contains(ext, "permessage-deflate") {
			bad("extensions", "EnableCompression=%v but Sec-WebSocket-Extensions is %q", d.Comp, ext)
		}
		for k, vs := range d.Header {
			if k == "Host" || k == "Sec-Websocket-Protocol" {
				continue
			}
			if strings.Join(rq.Header[k], "|") != strings.Join(vs, "|") {
				bad("caller-header", "caller header %s: server saw %q, caller gave %q", k, rq.Header[k], vs)
			}
		}
		// 3. the reply decides
		rep := &d.Backend.Reply
		okAll := rep.Status == 101 && formOK(upgradeForms, rep.Upgrade) && formOK(connectionForms, rep.Connection) && rep.Accept == "good" && rep.TruncAt == 0
		cls := fmt.Sprintf("status=%d,upgrade=%v,connection=%v,accept=%s", rep.Status, formOK(upgradeForms, rep.Upgrade), formOK(connectionForms, rep.Connection), rep.Accept)
		if rep.TruncAt > 0 {
			cls = "truncated"
		}
		if res.Conn != nil && !okAll {
			run.fail("C14", "connected-on-bad-reply", cls, "%s returned a connection although the reply does not prove acceptance of this request (%s)", who, cls)
			continue
		}
		if okAll && res.Conn == nil {
			run.fail("C14", "refused-good-reply", cls, "%s failed with %v although the reply is a valid 101 for this key", who, res.Err)
			continue
		}
		if !okAll && rep.TruncAt == 0 {
			if res.ErrClass != "ErrBadHandshake" {
				run.fail("C14", "wrong-error", cls, "%s: bad reply (%s) produced %q, expected ErrBadHandshake", who, cls, res.ErrText)
				continue
			}
			if res.Resp == nil {
				run.fail("C14", "no-response", cls, "%s: ErrBadHandshake without the response", who)
				continue
			}
			if res.Resp.StatusCode != rep.Status {
				run.fail("C14", "response-mismatch", "status", "%s: response status %d, server sent %d", who, res.Resp.StatusCode, rep.Status)
			}
			for _, kv := range rep.Extra {
				if !strings.Contains(strings.Join(res.Resp.Header[kv[0]], "|"), kv[1]) {
					run.fail("C14", "response-mismatch", "header", "%s: response lacks header %s: %s", who, kv[0], kv[1])
				}
			}
			wantBody := rep.BodyLen
			if rep.BodySent > 0 && rep.BodySent < wantBody {
				wantBody = rep.BodySent // the body was cut short: whatever arrived (up to 1024 bytes) is handed over
			}
			if wantBody > 1024 {
				wantBody = 1024
			}
			if rep.Status == 204 || rep.Status == 304 || rep.Status/100 == 1 {
				wantBody = 0 // no body by HTTP semantics
			}
			if len(res.RespBody) != wantBody {
				run.fail("C14", "response-mismatch", "body", "%s: %d body bytes returned, expected %d (server sent %d)", who, len(res.RespBody), wantBody, rep.BodyLen)
			} else {
				for k, c := range res.RespBody {
					if c != byte('a'+k%26) {
						run.fail("C14", "response-mismatch", "body-bytes", "%s: body byte %d differs", who, k)
						break
					}
				}
			}
		}
		if rep.Accept == "stale" && len(run.HS.Dials) > 1 {
			run.Stats.Probes[pReplayedAccept]++
		}
		_ = url.Parse
	}
}

func ciContains(lines []string, tok string) bool {
	for _, l := range lines {
		for _, t := range strings.Split(l, ",") {
			if strings.EqualFold(strings.TrimSpace(t), tok) {
				return true
			}
		}
	}
	return false
}
