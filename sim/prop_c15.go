package wsim

import (
	"bufio"
	"bytes"
	"fmt"
	"net/http"
	"strings"

	"wsim/wsframe"
)

// C15 — both endpoints always agree on whether compression is in use.

func init() {
	register(&PropDef{ID: "C15", Num: 15, Gen: genC15, Oracle: oracleC15, Level: "exploration"})
}

// offers (header lines) and whether they contain a permessage-deflate element
var extOffers = []struct {
	lines []string
	pmd   bool
}{
	{nil, false},
	{[]string{"permessage-deflate"}, true},
	{[]string{"permessage-deflate; client_max_window_bits"}, true},
	{[]string{"permessage-deflate; server_no_context_takeover; client_no_context_takeover"}, true},
	{[]string{"permessage-deflate; server_max_window_bits=10; client_max_window_bits=\"12\""}, true},
	{[]string{"x-webkit-deflate-frame, permessage-deflate"}, true},
	{[]string{"foo; bar=1, permessage-deflate; client_no_context_takeover"}, true},
	{[]string{"foo", "permessage-deflate"}, true},
	{[]string{"  permessage-deflate  ;  client_max_window_bits = 15  "}, true},
	{[]string{"x-webkit-deflate-frame"}, false},
	{[]string{"permessage-deflat"}, false},
	{[]string{"permessage-deflate2; a"}, false},
	{[]string{"foo; permessage-deflate"}, false}, // a parameter named like the extension is not an offer
	{[]string{"PERMESSAGE-DEFLATE"}, false},       // extension tokens are compared exactly by this library; not generated as a must-accept
}

// server announcements in unusual but grammatical spellings, with what they mean
var extReplies = []struct{ text, means string }{
	{"permessage-deflate;server_no_context_takeover;client_no_context_takeover", "both"},
	{"permessage-deflate ; client_no_context_takeover ; server_no_context_takeover", "both"},
	{"permessage-deflate; server_no_context_takeover; client_no_context_takeover; server_max_window_bits=15", "both"},
	{"permessage-deflate; server_no_context_takeover; x=\"a\\\"; client_no_context_takeover; y=\"", "server_only"}, // the second parameter name is inside a quoted string
	{"permessage-deflate; x=\"client_no_context_takeover\"; server_no_context_takeover", "server_only"},
	{"permessage-deflate; x=\"server_no_context_takeover\"; client_no_context_takeover", "client_only"},
	{"foo; client_no_context_takeover, permessage-deflate; server_no_context_takeover", "server_only"}, // the parameter belongs to another extension
	{"permessage-deflate; server_no_context_takeover, bar; client_no_context_takeover", "server_only"},
}

func genC15(r *PRNG, tier string) *Scenario {
	switch r.Intn(4) {
	case 0:
		scn := genPair(r, tier, "C15", pairOpts{})
		scn.Class = "pair-four-settings"
		return scn
	case 3:
		// the application supplies the offer itself (the RFC spelling of the header name is not
		// a canonical MIME key, so the Dialer passes it through) while Dialer.EnableCompression is off
		scn := genPair(r, tier, "C15", pairOpts{})
		scn.Class = "pair-four-settings"
		cl := scn.Links[0].Client
		cl.Compression = false
		cl.ReqHeader = map[string][]string{"Sec-WebSocket-Extensions": {"permessage-deflate; server_no_context_takeover; client_no_context_takeover"}}
		return scn
	case 1:
		return genC15Byz(r, true)
	}
	return genC15Byz(r, false)
}

func genC15Byz(r *PRNG, realIsServer bool) *Scenario {
	scn := &Scenario{Prop: "C15", Seed: r.Uint64() >> 1, Sched: genSched(r)}
	end := &EndCfg{ReadBuf: genBuf(r), WriteBuf: genWBuf(r, 125), Compression: r.Chance(2, 3), Handlers: "default"}
	m1 := SItem{Kind: "msg", MT: r.Range(1, 2), Pay: Payload{Len: r.Range(0, 300), Kind: "text", Seed: r.Uint64() >> 1}}
	m2 := genScriptMsg(r, true, false, false)
	m2.Comp = 1 + r.Intn(4) // a compressed message (RSV1), whatever was negotiated
	if m2.Pay.Len > 3000 {
		m2.Pay.Len = r.Range(0, 3000)
	}
	l := Link{Script: []SItem{m1, m2, {Kind: "ctl", Op: 8, Code: 1000}}}
	reader := TaskCfg{Kind: "reader", R: []ROp{{Kind: "rm"}}, ExtraReads: 1}
	writer := TaskCfg{Kind: "writer", W: []WOp{
		{Kind: "msg", MT: 1, Pay: Payload{Len: r.Range(1, 2000), Kind: "rep", Seed: 1}},
		{Kind: "ewc", B: r.Bool()},
		{Kind: "lvl", Lvl: r.Range(-2, 9)},
		{Kind: "msg", MT: 2, Pay: Payload{Len: r.Range(0, 2000), Kind: "rep", Seed: 2}},
		{Kind: "ewc", B: true},
		{Kind: "nw", MT: 1, Pay: Payload{Len: 700, Kind: "text", Seed: 3}, Chunks: []Chunk{{How: "w", N: 300}, {How: "s", N: 400}}, End: "close"},
	}}
	if realIsServer {
		scn.Class = "byzantine-client-offer"
		end.Server = r.PickS([]string{"mini", "nethttp"})
		o := extOffers[r.Intn(len(extOffers)-1)]
		l.PeerExt = o.lines
		if l.PeerExt == nil {
			l.PeerExt = []string{}
		}
		l.Server = end
		l.STasks = []TaskCfg{reader, writer}
	} else {
		scn.Class = "byzantine-server-reply"
		if end.Compression {
			l.PeerComp = r.PickS([]string{"both", "both", "none", "server_only", "client_only"})
			if r.Chance(1, 3) {
				// the same meanings in less usual spellings (quoted strings, escapes, other extensions around)
				t := extReplies[r.Intn(len(extReplies))]
				l.PeerComp, l.PeerExtReply = t.means, t.text
			}
		} else {
			l.PeerComp = "none"
		}
		l.Client = end
		l.CTasks = []TaskCfg{reader, writer}
	}
	scn.Links = []Link{l}
	scn.Net = NetCfg{DefCap: 1 << 20}
	scn.Sched.IdleHorizon = 5000
	return scn
}

// announced: does the 101 (as bytes on the wire) announce permessage-deflate with both parameters?
func announced(head []byte) (pmd, both bool) {
	resp, err := http.ReadResponse(bufio.NewReader(bytes.NewReader(head)), nil)
	if err != nil {
		return false, false
	}
	for _, v := range resp.Header["Sec-Websocket-Extensions"] {
		for _, ext := range strings.Split(v, ",") {
			parts := strings.Split(ext, ";")
			if strings.TrimSpace(parts[0]) != "permessage-deflate" {
				continue
			}
			pmd = true
			s, c := false, false
			for _, p := range parts[1:] {
				switch strings.TrimSpace(strings.SplitN(p, "=", 2)[0]) {
				case "server_no_context_takeover":
					s = true
				case "client_no_context_takeover":
					c = true
				}
			}
			both = s && c
			return
		}
	}
	return
}

func hasRSV1(raw []byte, masked bool) bool {
	fr, _, _ := wsframe.Parse(raw, wsframe.Expect{Masked: masked, Compression: true})
	for _, f := range fr {
		if f.Rsv1 {
			return true
		}
	}
	return false
}

func oracleC15(run *Run) {
	commonChecks(run)
	for _, p := range run.Panics {
		run.fail("C15", "panic", "panic", "%s", p)
	}
	switch run.Scn.Class {
	case "pair-four-settings":
		c, s := pairEnds(run, 0)
		if c == nil {
			run.fail("HARNESS", "no-connection", "hs", "pair handshake failed")
			return
		}
		head := s.Net.Tap()[:headLen(s)]
		pmd, both := announced(head)
		offered := c.Cfg.Compression || len(c.Cfg.ReqHeader["Sec-WebSocket-Extensions"]) > 0
		want := offered && s.Cfg.Compression
		if pmd != want || (pmd && !both) {
			run.fail("C15", "announcement", fmt.Sprintf("offered=%v,server=%v", offered, s.Cfg.Compression), "client offered=%v (Dialer.EnableCompression=%v) Upgrader.EnableCompression=%v but the 101 announces permessage-deflate=%v (both parameters=%v)", offered, c.Cfg.Compression, s.Cfg.Compression, pmd, both)
		}
		for _, e := range []*RealEnd{c, s} {
			if hasRSV1(wsTap(e), !e.IsServer) && !(pmd && both) {
				run.fail("C15", "rsv1-without-agreement", endName(e), "%s sent a compressed frame although the 101 did not announce permessage-deflate with both parameters", endName(e))
			}
		}
		// traffic flows both ways for every toggle sequence: the C01 and C02 oracles
		before := len(run.Findings)
		oracleC01(run)
		oracleC02(run)
		for i := before; i < len(run.Findings); i++ {
			f := &run.Findings[i]
			if f.Prop == "C01" || f.Prop == "C02" {
				if strings.Contains(f.Sig, "readfrom-fills-buffer-exactly") {
					f.Prop = "IGNORED"
					continue
				}
				f.Sig = "C15/traffic/" + f.Sig
				f.Prop = "C15"
			}
		}
	case "byzantine-client-offer":
		e := realOfLink(run, 0)
		if e == nil {
			run.fail("HARNESS", "no-connection", "hs", "upgrade failed")
			return
		}
		l := &run.Scn.Links[0]
		offered := false
		for _, o := range extOffers {
			if strings.Join(o.lines, "|") == strings.Join(l.PeerExt, "|") {
				offered = o.pmd
			}
		}
		head := e.Net.Tap()[:headLen(e)]
		pmd, both := announced(head)
		want := offered && e.Cfg.Compression
		cls := fmt.Sprintf("enabled=%v,offered=%v", e.Cfg.Compression, offered)
		if pmd != want || (pmd && !both) {
			run.fail("C15", "announcement", cls, "Upgrader.EnableCompression=%v, offer %q: the 101 announces permessage-deflate=%v (both parameters=%v), expected %v", e.Cfg.Compression, l.PeerExt, pmd, both, want)
		}
		checkByzTraffic(run, e, pmd && both, cls)
	case "byzantine-server-reply":
		l := &run.Scn.Links[0]
		e := run.RealAt[0]
		if e == nil {
			run.fail("HARNESS", "no-end", "hs", "client end missing")
			return
		}
		cls := fmt.Sprintf("offered=%v,reply=%s", l.Client.Compression, l.PeerComp)
		switch l.PeerComp {
		case "server_only", "client_only":
			if e.Conn != nil || e.HsErr == nil {
				run.fail("C15", "half-agreement-accepted", cls, "the server announced permessage-deflate with only one no_context_takeover parameter and Dial returned a connection")
			}
			run.Obligations++
		default:
			if e.Conn == nil {
				run.fail("C15", "dial-failed", cls, "Dial failed: %v", e.HsErr)
				return
			}
			checkByzTraffic(run, e, l.PeerComp == "both", cls)
		}
	}
}

// checkByzTraffic: the real end compresses and accepts compressed messages iff agreed.
func checkByzTraffic(run *Run, e *RealEnd, agreed bool, cls string) {
	who := endName(e)
	sent := hasRSV1(wsTap(e), !e.IsServer)
	// the writer sends three data messages, the first with write compression on
	wroteCompressible := false
	if wt := findTask(e, "writer"); wt != nil {
		for _, r := range wt.Hist {
			if (r.Op == "WriteMessage" || r.Op == "Message") && r.Err == "" && strings.HasPrefix(r.Note, "comp") {
				wroteCompressible = true
			}
		}
	}
	if agreed && !sent && wroteCompressible {
		run.fail("C15", "not-compressing", cls, "%s: compression was agreed but no frame it sent has RSV1 (write compression was enabled for the first message)", who)
	}
	if !agreed && sent {
		run.fail("C15", "rsv1-without-agreement", cls, "%s sent a compressed frame although compression was not agreed", who)
	}
	tv := decodeTap(wsTap(e), !e.IsServer, agreed)
	if tv.V != nil {
		run.fail("C15", "malformed-wire", tv.V.Rule, "%s wrote a malformed stream: %s", who, tv.V.Error())
	}
	// its output must be decodable by the other side for every toggle: compare with the sent log
	wsent, _, _ := sentLog(findTask(e, "writer"))
	var data []wsframe.Item
	for _, it := range tv.Items {
		if !it.Control {
			data = append(data, it)
		}
	}
	for i := 0; i < len(data) && i < len(wsent); i++ {
		if string(data[i].Payload) != string(wsent[i].Payload) {
			run.fail("C15", "undecodable-output", cls, "%s: message %d does not decode to what was written", who, i)
		}
		run.Obligations++
	}
	// reading: first message plain, second compressed
	obs, _ := observations(findTask(e, "reader"))
	l := &run.Scn.Links[0]
	_, exps := ExpandScript(l.Script, e.IsServer, run.Scn.Seed)
	want := expectedMsgs(exps)
	matched, errAt := checkDelivery(run, "C15", who, want, obs, "")
	if agreed {
		if matched != len(want) {
			run.fail("C15", "compressed-rejected", cls, "%s: compression was agreed but only %d of %d messages (the second is compressed) were delivered", who, matched, len(want))
		}
	} else {
		if matched > 1 {
			run.fail("C15", "compressed-accepted", cls, "%s: compression was not agreed but a message with RSV1 was delivered", who)
		}
		if errAt < len(obs) && (obs[errAt].Err == "" || strings.HasPrefix(obs[errAt].Err, "CloseError:1000")) {
			run.fail("C15", "compressed-accepted", cls, "%s: a frame with RSV1 was not rejected (%s)", who, obs[errAt].Err)
		}
	}
	run.Obligations++
}
