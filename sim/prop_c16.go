package wsim

import (
	"encoding/base64"
	"fmt"
	"net/url"
	"strings"
)

// C16 — handshakes clean up on every failure path and leave no deadline on success.
// C18 — proxy tunnelling and TLS are applied on every dial path.

func init() {
	register(&PropDef{ID: "C16", Num: 16, Gen: genC16, Oracle: oracleC16, Level: "fault_enumeration", Sweep: sweepC16, SweepN: 100})
	register(&PropDef{ID: "C18", Num: 18, Gen: genC18, Oracle: oracleC18, Level: "exploration"})
}

var hostForms = []string{"backend.test", "backend.test:8443", "10.9.8.7", "10.9.8.7:81", "[2001:db8::7]", "[2001:db8::7]:444", "Back-End.Example.test"}

// genPath draws a dial path. kind: direct | http | https | socks5
func genPath(r *PRNG, d *HSDial, kind string, wss bool) {
	host := hostForms[r.Intn(len(hostForms))]
	scheme := "ws"
	if wss {
		scheme = "wss"
	}
	d.URL = scheme + "://" + host + r.PickS([]string{"/", "/chat?room=1", ""})
	d.Backend.TLS = wss
	d.Backend.Cert = "valid"
	// hooks: always at least one plain hook (the default net.Dialer uses real sockets and cannot run in the bubble)
	d.Hooks = r.PickS([]string{"c", "d", "dc"})
	if r.Chance(1, 3) {
		d.Hooks += "t"
	}
	switch kind {
	case "direct":
	default:
		creds := r.PickS([]string{"", "", "user@", "user:secret@", "u%20x:p%3Aw@", "user:@"})
		ph := r.PickS([]string{"proxy.test", "proxy.test:3128", "10.0.0.9:8080", "[2001:db8::99]:3128"})
		d.ProxyURL = kind + "://" + creds + ph
		d.Proxy = &ProxyCfg{Kind: kind, Reply: "200", Cert: "valid"}
	}
}

var hsFaultKinds = []int{fErr, fTimeout, fEOF, fShort}

func genC16(r *PRNG, tier string) *Scenario {
	scn := &Scenario{Prop: "C16", Seed: r.Uint64() >> 1, Sched: genSched(r), HS: &HSScn{}}
	scn.Sched.IdleHorizon = 2 * 3600 * 1000
	class := r.PickS([]string{"client-fault", "client-fault", "client-stall", "client-stall", "negative", "server-fault", "tight-deadline", "tight-deadline"})
	scn.Class = class
	if class == "server-fault" {
		return genC16Server(r, scn)
	}
	d := HSDial{RBuf: genBuf(r), WBuf: genBuf(r), Comp: r.Bool()}
	kind := r.PickS([]string{"direct", "direct", "http", "https", "socks5"})
	wss := r.Chance(1, 2)
	if class == "tight-deadline" && r.Chance(3, 4) {
		// mostly on paths without TLS, where deadline calls can be made scheduling points (see below)
		kind, wss = r.PickS([]string{"direct", "direct", "http", "socks5"}), false
	}
	genPath(r, &d, kind, wss)
	d.Backend.Kind = "upgrader"
	d.Backend.Comp = r.Bool()
	cc := ConnCfg{}
	switch class {
	case "client-fault":
		if r.Chance(1, 2) {
			d.HsTimeoutMs = int64(r.Pick([]int{5000, 45000}))
		}
		cc.FaultsA = []OpFault{{Side: "a", K: r.Range(0, 45), Kind: hsFaultKinds[r.Intn(len(hsFaultKinds))], N: r.Pick([]int{0, 1, 10, 100})}}
		d.IdleMs = 3600 * 1000
	case "tight-deadline":
		// nothing goes wrong, but the clock advances while the handshake is in progress and the
		// time-out is of the order of those advances: it may expire at any operation, or just as the
		// handshake completes. Either Dial fails in time and cleans up, or it returns a usable connection.
		scn.Sched.TickPermil = r.Pick([]int{3, 10, 30})
		// deadline calls become scheduling points where no crypto/tls mutex can be held across them
		scn.Sched.YieldOnDeadline = !wss && kind != "https"
		ms := int64(r.Pick([]int{1, 1, 1, 2, 100, 1000, 1100, 10000}))
		if r.Bool() {
			d.HsTimeoutMs = ms
		} else {
			d.CtxTimeoutMs = ms
		}
		d.IdleMs = 3600 * 1000
	case "client-stall":
		if r.Chance(2, 3) {
			d.HsTimeoutMs = int64(r.Pick([]int{300, 5000, 45000}))
		} else {
			d.CtxTimeoutMs = int64(r.Pick([]int{300, 5000, 45000}))
		}
		switch r.Intn(5) {
		case 4:
			// a refusal whose body stops half way: reading it must stay under the handshake deadline
			d.Backend.Kind = "byz"
			d.Backend.Reply = Reply{Status: r.Pick([]int{403, 500, 200}), Accept: "good", Upgrade: []string{"websocket"}, Connection: []string{"Upgrade"},
				BodyLen: r.Pick([]int{100, 2000}), BodySent: r.Pick([]int{1, 3, 50})}
		case 0:
			d.Backend.Kind = "silent"
		case 1:
			if d.Proxy != nil {
				d.Proxy.Reply = "silent"
			} else {
				d.Backend.Kind = "silent"
			}
		default:
			cc.FaultsA = []OpFault{{Side: "a", K: r.Range(0, 40), Kind: fHang}}
		}
	case "negative":
		switch r.Intn(4) {
		case 0:
			d.Backend.Kind = "byz"
			d.Backend.Reply = Reply{Status: r.Pick([]int{200, 400, 403, 500}), Accept: "good", Upgrade: []string{"websocket"}, Connection: []string{"Upgrade"}, BodyLen: r.Pick([]int{0, 10, 2000})}
			if r.Bool() {
				d.Backend.Reply = Reply{Raw: []byte(r.PickS([]string{"", "garbage\r\n\r\n", "HTTP/1.1 101\r\n", "HTTP/1.1 101 Switching Protocols\r\nUpgrade: websocket\r\n"})), CloseAfter: true}
			}
		case 1:
			if d.Proxy != nil {
				if d.Proxy.Kind == "socks5" {
					d.Proxy.SocksCode = byte(r.Pick([]int{1, 2, 3, 4, 5, 6, 7, 8}))
				} else {
					d.Proxy.Reply = r.PickS([]string{"403", "407", "407-noreason", "502-long", "garbage", "close", "202", "204"})
				}
			} else {
				d.Backend.Kind = "byz"
				d.Backend.Reply = Reply{Status: 101, Accept: "mangled", Upgrade: []string{"websocket"}, Connection: []string{"Upgrade"}}
			}
		case 2:
			if wss {
				d.Backend.Cert = r.PickS([]string{"otherhost", "untrusted"})
			} else if d.Proxy != nil && d.Proxy.Kind == "https" {
				d.Proxy.Cert = r.PickS([]string{"otherhost", "untrusted"})
			} else {
				d.Backend.Kind = "byz"
				d.Backend.Reply = Reply{Status: 101, Accept: "good", Upgrade: nil, Connection: []string{"Upgrade"}}
			}
		default:
			d.Backend.Kind = "byz"
			d.Backend.Reply = Reply{Status: 101, Accept: "good", Upgrade: []string{"websocket"}, Connection: []string{"Upgrade"}, Ext: "permessage-deflate; server_no_context_takeover"}
			d.Comp = true
		}
	}
	scn.HS.Dials = []HSDial{d}
	scn.Net = NetCfg{DefCap: r.Pick([]int{256, 4096, 1 << 20}), Conns: []ConnCfg{cc}}
	return scn
}

func genC16Server(r *PRNG, scn *Scenario) *Scenario {
	key := base64.StdEncoding.EncodeToString([]byte("0123456789abcdef"))
	req := "GET /s HTTP/1.1\r\nHost: srv.test\r\nUpgrade: websocket\r\nConnection: Upgrade\r\nSec-WebSocket-Key: " + key + "\r\nSec-WebSocket-Version: 13\r\n"
	switch r.Intn(6) {
	case 0:
		req = strings.Replace(req, "Sec-WebSocket-Version: 13", "Sec-WebSocket-Version: 8", 1) // refused before the hijack
	case 1:
		req += "Origin: http://evil.test\r\n" // refused by the default origin policy
	}
	req += "\r\n"
	scn.HS.SrvReq = []byte(req)
	scn.HS.Srv = &Backend{Kind: "upgrader", Server: r.PickS([]string{"mini", "mini", "nethttp"}), Comp: r.Bool()}
	if r.Chance(1, 2) {
		scn.HS.Srv.HsTimeoutMs = int64(r.Pick([]int{1000, 45000}))
	}
	cc := ConnCfg{}
	if r.Chance(3, 4) {
		side := "a"
		if scn.HS.Srv.Server == "nethttp" {
			// net/http's background reader and the handler use the connection from two goroutines:
			// only the per-side counters are schedule-independent there
			side = r.PickS([]string{"r", "w"})
		}
		k := r.Range(0, 14)
		if r.Chance(1, 2) {
			// the write-side operations of Upgrade are few (arm the deadline, write the response, clear the
			// deadline), while the number of reads the request takes depends on how the network chunks it
			side, k = "w", r.Range(0, 3)
		}
		cc.FaultsB = []OpFault{{Side: side, K: k, Kind: hsFaultKinds[r.Intn(len(hsFaultKinds))], N: r.Pick([]int{0, 1, 50})}}
	}
	scn.Net = NetCfg{DefCap: 1 << 16, Conns: []ConnCfg{cc}}
	return scn
}

func oracleC16(run *Run) {
	commonChecks(run)
	if run.HS == nil {
		return
	}
	if run.Scn.Class == "server-fault" {
		oracleC16Server(run)
		return
	}
	if len(run.HS.Dials) == 0 {
		return
	}
	res := run.HS.Dials[0]
	d := &run.Scn.HS.Dials[0]
	path := pathName(d)
	if res.Panic != "" {
		run.fail("C16", "panic", panicSite(res.Panic), "Dial panicked: %s", clipN(res.Panic, 900))
		return
	}
	timeout := d.HsTimeoutMs
	if timeout == 0 {
		timeout = d.CtxTimeoutMs
	}
	if !res.Returned {
		if timeout > 0 {
			run.fail("C16", "late-handshake-timeout", pathKind(d), "%s: a handshake time-out of %d ms was configured, the peer stalled, and Dial had not returned after %d ms of simulated time: some transport operation of the handshake runs without a deadline", path, timeout, run.Stats.SimNanos/1e6)
		} else if run.Reason != "steps" {
			// without a time-out a stalled peer may legitimately block Dial forever
		}
		return
	}
	run.Obligations++
	if timeout > 0 && res.Conn == nil && run.Scn.Sched.TickPermil == 0 {
		// (when the clock also advances while operations are runnable - the tight-deadline class - the
		// delay may be the scheduler's, as on a starved machine, and no bound on the return time is claimed)
		// time spent inside the caller's own dial hook is not the library's to bound (a hook without a
		// context cannot even be told about the deadline)
		hookNanos := int64(0)
		for _, hc := range res.Hooks {
			hookNanos += hc.HookNanos
		}
		if limit := res.Start + timeout*1e6 + hookNanos; res.End > limit {
			run.fail("C16", "late-handshake-timeout", pathKind(d), "%s: time-out %d ms, Dial returned at t=%d ms (started at %d ms): some transport operation of the handshake ran without a deadline", path, timeout, res.End/1e6, res.Start/1e6)
		}
	}
	if res.Conn == nil {
		if res.Err == nil {
			run.fail("C16", "nil-conn-nil-error", path, "%s: Dial returned neither a connection nor an error", path)
		}
		for _, hc := range res.Hooks {
			if hc.Conn != nil && !hc.ClosedAtReturn && !hc.ClosedLater {
				run.fail("C16", "connection-leaked", pathKind(d), "%s: Dial failed (%s) but the connection obtained from %s(%s) was not closed", path, res.ErrText, hc.Hook, hc.Addr)
			}
		}
		return
	}
	// success: open, no deadline armed, usable after an idle hour
	if len(res.Hooks) == 0 || res.Hooks[0].Conn == nil {
		return
	}
	first := res.Hooks[0].Conn
	faultAfter := false
	for _, c := range first.Calls() {
		if c.Fault != 0 && c.Fault != fDeadline && c.Step > res.StepEnd {
			faultAfter = true // an injected fault landed after the handshake (a deadline that expires is not one)
		}
	}
	if d.IdleMs > 0 && res.PostDone && !faultAfter && res.PostErr != "" {
		run.fail("C16", "unusable-after-success", path, "%s: Dial succeeded but a message exchange after %d ms of idleness failed: %s (a handshake deadline left armed?)", path, d.IdleMs, res.PostErr)
	}
	// deadlines as of the moment Dial returned
	if hc := res.Hooks[0]; hc.RdAtReturn != -1 || hc.WrAtReturn != -1 {
		run.fail("C16", "deadline-left-armed", pathKind(d), "%s: Dial succeeded with a deadline still armed on the connection (read %d ns, write %d ns; -1 = none)", path, hc.RdAtReturn, hc.WrAtReturn)
	}
	if res.Hooks[0].ClosedAtReturn {
		run.fail("C16", "returned-closed", pathKind(d), "%s: Dial succeeded but the connection is closed", path)
	}
}

// pathKind names the proxy kind only (signatures must not vary with incidental settings).
func pathKind(d *HSDial) string {
	if d.Proxy != nil {
		return d.Proxy.Kind + "-proxy"
	}
	return "direct"
}

func pathName(d *HSDial) string {
	p := "direct"
	if d.Proxy != nil {
		p = d.Proxy.Kind + "-proxy"
	}
	if strings.HasPrefix(d.URL, "wss") {
		p += "/wss"
	} else {
		p += "/ws"
	}
	if strings.Contains(d.Hooks, "t") {
		p += "/tlsctx"
	}
	return p
}

func oracleC16Server(run *Run) {
	log := run.HS.Srv
	if log == nil {
		return
	}
	if strings.HasPrefix(log.UpgradeErr, "PANIC") {
		run.fail("C16", "panic", "server", "%s", log.UpgradeErr)
		return
	}
	if log.Accepted == 0 {
		return // the fault hit before the handler ran
	}
	run.Obligations++
	resp := run.HS.SrvResp
	if log.Upgraded {
		sc := log.SrvConn
		if sc == nil {
			return
		}
		// the connection was returned open with no deadline; (the handler then closes it itself)
		rd, wr := int64(-1), int64(-1)
		closedByUpgrade := false
		ncalls := 0
		for _, c := range sc.Calls() {
			if c.Err != 0 {
				continue
			}
			switch c.Op {
			case 'D':
				rd, wr = c.Arg, c.Arg
			case 'r':
				rd = c.Arg
			case 'w':
				wr = c.Arg
			case 'C':
				closedByUpgrade = ncalls == 0
			}
			ncalls++
		}
		_ = closedByUpgrade
		if wr != -1 {
			run.fail("C16", "deadline-left-armed", "server", "Upgrade succeeded with a write deadline still armed (%d ns)", wr)
		}
		_ = rd
		if log.StateAtReturn && (log.RdAtReturn != -1 || log.WrAtReturn != -1) {
			run.fail("C16", "deadline-left-armed", "server", "Upgrade returned a connection with a handshake deadline still armed (read %d ns, write %d ns; -1 = none)", log.RdAtReturn, log.WrAtReturn)
		}
		return
	}
	// failure
	hijacked := log.SrvConn != nil && run.Scn.HS.Srv.Server != "nethttp"
	_ = hijacked
	if strings.Contains(log.UpgradeErr, "websocket:") && !strings.Contains(string(resp), "HTTP/1.1 101") {
		// refused before the hijack: an HTTP error status must have been written (unless the transport failed first)
		faulted := false
		if log.SrvConn != nil {
			for _, c := range log.SrvConn.Calls() {
				if c.Fault != 0 {
					faulted = true
				}
			}
		}
		if len(run.Scn.Net.Conns) > 0 && len(run.Scn.Net.Conns[0].FaultsB) > 0 {
			faulted = true // (with net/http the harness does not see the server's connection)
		}
		if !faulted && !strings.HasPrefix(string(resp), "HTTP/1.1 4") && !strings.HasPrefix(string(resp), "HTTP/1.1 5") {
			run.fail("C16", "no-error-status", "server", "Upgrade failed (%s) before the hijack but the reply is %q", log.UpgradeErr, clip(string(resp)))
		}
		return
	}
	// failed after the hijack (transport fault while writing the 101): the connection must be closed
	sc := log.SrvConn
	if sc == nil && len(run.Conns) > 1 {
		sc = run.Conns[1] // with net/http the handler never sees the transport; it is the accepting end of pair 0
	}
	afterHijack := !strings.HasPrefix(log.UpgradeErr, "websocket:") || strings.Contains(string(resp), "HTTP/1.1 101")
	closed := sc != nil && sc.IsClosed()
	if log.ClosedKnown {
		closed = log.ClosedAtReturn
	}
	if sc != nil && afterHijack && log.UpgradeErr != "" && !strings.HasPrefix(log.UpgradeErr, "bad request") && !closed {
		run.fail("C16", "connection-leaked", "server", "Upgrade failed after the hijack (%s) and left the connection open", log.UpgradeErr)
	}
}

// ---------------------------------------------------------------------------
// C18
// ---------------------------------------------------------------------------

func genC18(r *PRNG, tier string) *Scenario {
	scn := &Scenario{Prop: "C18", Class: "topology", Seed: r.Uint64() >> 1, Sched: genSched(r), HS: &HSScn{}}
	scn.Sched.IdleHorizon = 5000
	if r.Chance(1, 5) {
		return genC18Shared(r, scn)
	}
	d := HSDial{RBuf: genBuf(r), WBuf: genBuf(r), Comp: r.Bool()}
	kind := r.PickS([]string{"direct", "http", "http", "https", "https", "socks5"})
	wss := r.Bool()
	genPath(r, &d, kind, wss)
	d.Backend.Kind = "upgrader"
	if wss {
		d.Backend.Cert = r.PickS([]string{"valid", "valid", "otherhost", "untrusted"})
	}
	if d.Proxy != nil {
		if d.Proxy.Kind == "socks5" {
			if r.Chance(1, 4) {
				d.Proxy.SocksCode = byte(r.Pick([]int{1, 2, 5}))
			}
		} else {
			d.Proxy.Reply = r.PickS([]string{"200", "200", "200", "403", "407", "407-noreason", "garbage", "201", "204", "299"})
		}
	}
	d.IdleMs = 1
	scn.HS.Dials = []HSDial{d}
	scn.Net = NetCfg{DefCap: r.Pick([]int{256, 4096, 1 << 20})}
	return scn
}

func defaultPort(u *url.URL) string {
	hp := u.Host
	if i := strings.LastIndex(hp, ":"); i <= strings.LastIndex(hp, "]") {
		switch u.Scheme {
		case "wss", "https":
			hp += ":443"
		case "socks5":
			hp += ":1080"
		default:
			hp += ":80"
		}
	}
	return hp
}

func oracleC18(run *Run) {
	commonChecks(run)
	if run.HS == nil || len(run.HS.Dials) == 0 {
		return
	}
	for i := range run.HS.Dials {
		oracleC18Dial(run, i)
	}
}

func oracleC18Dial(run *Run, di int) {
	res := run.HS.Dials[di]
	d := &run.Scn.HS.Dials[di]
	path := pathName(d)
	if run.Scn.HS.SharedDialer {
		path = fmt.Sprintf("shared-dialer/dial%d/", di) + path
	}
	if res.Panic != "" {
		run.fail("C18", "panic", panicSite(res.Panic), "Dial panicked: %s", clipN(res.Panic, 900))
		return
	}
	if !res.Returned {
		if run.Reason != "steps" && (di == 0 || run.HS.Dials[di-1].Returned) {
			run.fail("C18", "dial-hung", path, "%s: Dial did not return", path)
		}
		return
	}
	run.Obligations++
	u, _ := url.Parse(d.URL)
	target := defaultPort(u)
	wss := u.Scheme == "wss"
	tlsHook := strings.Contains(d.Hooks, "t")
	// which hook must make the first hop, and to where
	plain := "NetDial"
	if strings.Contains(d.Hooks, "c") {
		plain = "NetDialContext"
	}
	wantHook, wantAddr := plain, target
	if d.Proxy != nil {
		pu, _ := url.Parse(d.ProxyURL)
		wantAddr = defaultPort(pu)
		if d.Proxy.Kind == "https" && tlsHook {
			wantHook = "NetDialTLSContext"
		}
	} else if wss && tlsHook {
		wantHook = "NetDialTLSContext"
	}
	if len(res.Hooks) != 1 {
		run.fail("C18", "hook-calls", path, "%s: %d dial-hook calls, expected exactly one (first hop only)", path, len(res.Hooks))
	} else if res.Hooks[0].Hook != wantHook || res.Hooks[0].Addr != wantAddr {
		run.fail("C18", "wrong-first-hop", path, "%s: first hop made with %s to %q, expected %s to %q", path, res.Hooks[0].Hook, res.Hooks[0].Addr, wantHook, wantAddr)
	}
	proxyOK := true
	if d.Proxy != nil {
		pl := &res.Proxy
		pu, _ := url.Parse(d.ProxyURL)
		switch d.Proxy.Kind {
		case "http", "https":
			if pl.Connects != 1 {
				run.fail("C18", "connect-count", path, "%s: the proxy received %d requests, expected exactly one CONNECT", path, pl.Connects)
				return
			}
			want := "CONNECT " + target + " host=" + target
			if pl.Targets[0] != want {
				run.fail("C18", "connect-target", path, "%s: proxy saw %q, expected %q", path, pl.Targets[0], want)
			}
			wantAuth := ""
			if pw, ok := pu.User.Password(); ok && pu.User != nil {
				wantAuth = "Basic " + base64.StdEncoding.EncodeToString([]byte(pu.User.Username()+":"+pw))
			}
			if pl.Auth[0] != wantAuth {
				run.fail("C18", "proxy-auth", path, "%s: Proxy-Authorization %q, expected %q (proxy URL %s)", path, pl.Auth[0], wantAuth, d.ProxyURL)
			}
			proxyOK = d.Proxy.Reply == "200"
			if d.Proxy.Kind == "https" && len(pl.RawFirst) > 0 && pl.RawFirst[0] != 0x16 {
				run.fail("C18", "plaintext-to-https-proxy", path, "%s: the first byte sent to the HTTPS proxy is %#x, not a TLS handshake record", path, pl.RawFirst[0])
			}
		case "socks5":
			if pl.Connects != 1 || pl.SocksTarget != socksTarget(target) {
				run.fail("C18", "socks-target", path, "%s: SOCKS5 proxy saw %d requests, target %q, expected one for %q", path, pl.Connects, pl.SocksTarget, socksTarget(target))
			}
			if pw, ok := pu.User.Password(); ok && pu.User != nil {
				if pl.SocksAuth != pu.User.Username()+":"+pw {
					run.fail("C18", "socks-auth", path, "%s: SOCKS5 credentials %q, expected %q", path, pl.SocksAuth, pu.User.Username()+":"+pw)
				}
			}
			proxyOK = d.Proxy.SocksCode == 0
		}
		if !proxyOK && (res.Conn != nil || res.Err == nil) {
			run.fail("C18", "proxy-refusal-ignored", path, "%s: the proxy refused (%s/%d) but Dial did not fail", path, d.Proxy.Reply, d.Proxy.SocksCode)
		}
	}
	if !proxyOK {
		return
	}
	bl := &res.Backend
	certOK := !wss || d.Backend.Cert == "valid"
	certKind := d.Backend.Cert
	if strings.HasPrefix(certKind, "as:") {
		certKind = "valid-for-another-host"
	}
	if wss {
		// no HTTP byte outside TLS; SNI is the URL's host name
		if len(bl.RawFirst) > 0 && bl.RawFirst[0] != 0x16 {
			run.fail("C18", "plaintext-to-wss-backend", path, "%s: the backend's first byte is %#x (%q): the WebSocket handshake was sent outside TLS", path, bl.RawFirst[0], clip(string(bl.RawFirst)))
		}
		host := strings.Trim(hostOnly(target), "[]")
		isIP := strings.Count(host, ".") == 3 && !strings.ContainsAny(host, "abcdefghijklmnopqrstuvwxyz") || strings.Contains(host, ":")
		if !isIP && bl.Accepted > 0 && bl.SNI != "" && !strings.EqualFold(bl.SNI, host) {
			run.fail("C18", "wrong-sni", path, "%s: SNI %q, URL host %q", path, bl.SNI, host)
		}
	} else if len(bl.RawFirst) >= 4 && string(bl.RawFirst[:4]) != "GET " {
		run.fail("C18", "unexpected-first-bytes", path, "%s: ws backend received %q first", path, clip(string(bl.RawFirst)))
	}
	if certOK && res.Conn == nil {
		run.fail("C18", "dial-failed", path, "%s: every hop was willing and the certificate valid, but Dial failed: %s", path, res.ErrText)
	}
	if !certOK && res.Conn != nil {
		run.fail("C18", "bad-certificate-accepted", pathKind(d)+"/"+certKind, "%s: the backend presented a certificate that is %s, yet Dial returned a connection", path, certKind)
	}
	if !certOK && bl.Upgraded {
		run.fail("C18", "handshake-sent-to-unverified-peer", pathKind(d)+"/"+certKind, "%s: the WebSocket handshake reached a backend whose certificate is %s", path, certKind)
	}
	if res.Conn != nil && res.PostDone && res.PostErr != "" {
		run.fail("C18", "tunnel-broken", path, "%s: message exchange through the established path failed: %s", path, res.PostErr)
	}
	_ = fmt.Sprint
}

// socksTarget: x/net sends IP literals as addresses; the stub renders them back.
func socksTarget(hostport string) string { return hostport }

// panicSite names the innermost library function on a panic stack.
func panicSite(stack string) string {
	for _, ln := range strings.Split(stack, "\n") {
		if i := strings.Index(ln, "github.com/gorilla/websocket."); i >= 0 && !strings.HasPrefix(ln, "\t") {
			f := ln[i+len("github.com/gorilla/websocket."):]
			if j := strings.Index(f, "("); j > 0 && f[0] != '(' {
				f = f[:j]
			} else if k := strings.Index(f, ")."); k > 0 {
				rest := f[k+2:]
				if j := strings.Index(rest, "("); j > 0 {
					rest = rest[:j]
				}
				f = strings.Trim(f[:k], "(*") + "." + rest
			}
			return f
		}
	}
	return "unknown-site"
}

func clipN(s string, n int) string {
	if len(s) > n {
		return s[:n] + "…"
	}
	return s
}

// sweepC16: one dial path per 100 runs; run k puts a fault (k even: error /
// timeout / EOF / short write by k mod 8; k odd: hang with a time-out set) at
// transport operation k / 2 of the connection the client obtained.
func sweepC16(r *PRNG, k, S int) *Scenario {
	var scn *Scenario
	for {
		scn = genC16(r, "thorough")
		if scn.Class == "client-fault" {
			break
		}
	}
	d := &scn.HS.Dials[0]
	cc := &scn.Net.Conns[0]
	if k%2 == 0 {
		scn.Class = "client-fault-sweep"
		cc.FaultsA = []OpFault{{Side: "a", K: k / 2, Kind: hsFaultKinds[(k/2)%4], N: 10}}
	} else {
		scn.Class = "client-stall-sweep"
		cc.FaultsA = []OpFault{{Side: "a", K: k / 2, Kind: fHang}}
		d.IdleMs = 0
		if d.HsTimeoutMs == 0 {
			d.HsTimeoutMs = 5000
		}
	}
	return scn
}

// genC18Shared: two wss dials with ONE Dialer value and ONE tls.Config. The
// second backend presents a trusted certificate that is valid for the first
// dial's host, not for its own: verification must be for the URL's host on
// every dial, whatever an earlier dial left behind.
func genC18Shared(r *PRNG, scn *Scenario) *Scenario {
	scn.Class = "shared-dialer"
	scn.HS.SharedDialer = true
	hooks := r.PickS([]string{"c", "d", "dc"})
	kind1 := r.PickS([]string{"http", "https", "socks5", "direct"})
	kind2 := r.PickS([]string{"direct", "direct", "http", "https"})
	var d1, d2 HSDial
	genPath(r, &d1, kind1, true)
	genPath(r, &d2, kind2, true)
	d1.URL, d2.URL = "wss://first.test/", "wss://second.test/"
	d1.Hooks, d2.Hooks = hooks, hooks
	d1.Backend = Backend{Kind: "upgrader", TLS: true, Cert: "valid"}
	d2.Backend = Backend{Kind: "upgrader", TLS: true, Cert: "as:first.test"}
	if r.Chance(1, 4) {
		d2.Backend.Cert = "valid" // control: the second dial is fine
	}
	d1.IdleMs, d2.IdleMs = 1, 1
	scn.HS.Dials = []HSDial{d1, d2}
	scn.Net = NetCfg{DefCap: 1 << 20}
	return scn
}
