package wsim

import "strings"

// C17 — no bytes are lost or reordered at the handshake boundary.

func init() {
	register(&PropDef{ID: "C17", Num: 17, Gen: genC17, Oracle: oracleC17, Level: "exploration"})
}

func genC17(r *PRNG, tier string) *Scenario {
	scn := &Scenario{Prop: "C17", Class: "glued", Seed: r.Uint64() >> 1, Sched: genSched(r)}
	realIsServer := r.Chance(2, 3)
	comp := r.Chance(1, 4)
	end := &EndCfg{WriteBuf: genWBuf(r, 125), Compression: comp}
	end.ReadBuf = r.Pick([]int{0, 0, 1, 16, 125, 200, 255, 256, 257, 1024, 4096})
	if r.Chance(1, 3) {
		end.HsTimeoutMs = int64(r.Pick([]int{1000, 45000}))
	}
	nmsg := r.Range(1, 6)
	var script []SItem
	for i := 0; i < nmsg; i++ {
		it := genScriptMsg(r, comp, false, true)
		if it.Pay.Len > 9000 {
			it.Pay.Len = r.Range(0, 9000)
		}
		script = append(script, it)
	}
	script = append(script, SItem{Kind: "ctl", Op: 8, Code: 1000})
	// the split of "handshake bytes || frames" across writes decides how much is already
	// buffered with the head, how much arrives while the handler runs, how much after the hijack
	l := Link{Script: script, Glue: 1, ScriptChunk: r.Pick([]int{0, 0, 1, 7, 64, 150, 200, 300, 1000, 4000, 4096, 5000})}
	task := TaskCfg{Kind: "reader", R: genReadProg(r, r.PickS([]string{"", "noabandon"})), ExtraReads: 1}
	if realIsServer {
		end.Server = r.PickS([]string{"mini", "mini", "nethttp"})
		if end.Server == "mini" {
			end.HijackR = r.Pick([]int{16, 32, 100, 255, 256, 257, 300, 1024, 4096, 8192})
			end.HijackW = r.Pick([]int{0, 16, 300, 4096})
		}
		l.Server = end
		l.STasks = []TaskCfg{task}
	} else {
		l.Client = end
		l.CTasks = []TaskCfg{task}
	}
	scn.Links = []Link{l}
	scn.Net = NetCfg{DefCap: r.Pick([]int{64, 1024, 65536, 1 << 20})}
	return scn
}

func oracleC17(run *Run) {
	oracleConformant(run, "C17")
	if e := realOfLink(run, 0); e != nil && e.IsServer {
		switch {
		case strings.Contains(e.NetType, "brNetConn"):
			run.Stats.Probes[pBrNetConn]++
		case e.Cfg.ReadBuf == 0 && (e.Cfg.Server == "nethttp" || e.Cfg.HijackR > 256 || e.Cfg.HijackR == 0):
			run.Stats.Probes[pHijackReuse]++
		}
	}
}
