package wsim

// C19 — a PreparedMessage equals WriteMessage on every connection it is sent to.
// C20 — pooled write buffers are held only while writing and never touched after release.

func init() {
	register(&PropDef{ID: "C19", Num: 19, Race: true, Gen: genC19, Oracle: oracleC19, Level: "exploration"})
	register(&PropDef{ID: "C20", Num: 20, Race: true, Gen: genC20, Oracle: oracleC20, Level: "exploration"})
}

func genC19(r *PRNG, tier string) *Scenario {
	scn := genPair(r, tier, "C19", pairOpts{prepared: true, prepMore: true, links: r.Range(1, 3), minWBuf: 0})
	scn.Class = "prepared-shared"
	// pipes large enough that prepared traffic never needs the clock
	for i := range scn.Net.Conns {
		if scn.Net.Conns[i].CapAB < 4096 {
			scn.Net.Conns[i].CapAB = 4096
		}
		if scn.Net.Conns[i].CapBA < 4096 {
			scn.Net.Conns[i].CapBA = 4096
		}
	}
	return scn
}

func oracleC19(run *Run) {
	commonChecks(run)
	for _, p := range run.Panics {
		run.fail("C19", "panic", "panic", "%s", p)
	}
	if run.Reason != "done" {
		run.fail("C19", "stuck", run.Reason, "the run did not finish (%s)", run.Reason)
		return
	}
	var views []*TapView
	var ends []*RealEnd
	for i := range run.Scn.Links {
		c, s := pairEnds(run, i)
		if c == nil {
			run.fail("HARNESS", "no-connection", "hs", "pair handshake failed on link %d", i)
			return
		}
		allWritesAccepted(run, "C19", c)
		allWritesAccepted(run, "C19", s)
		views = append(views, checkTap(run, "C19", c, s, true), checkTap(run, "C19", s, c, true))
		ends = append(ends, c, s)
		// the peers read what was prepared
		for _, dir := range [][2]*RealEnd{{c, s}, {s, c}} {
			sent, _, _ := sentLog(findTask(dir[0], "writer"))
			obs, _ := observations(findTask(dir[1], "reader"))
			term := ""
			for _, o := range obs {
				if o.Kind == "join" {
					term = o.Rec.Note
				}
			}
			m, _ := checkDelivery(run, "C19", endName(dir[0])+"->"+endName(dir[1]), sent, obs, term)
			if m != len(sent) {
				run.fail("C19", "missing-message", "missing", "%s: %d sent, %d delivered", endName(dir[0]), len(sent), m)
			}
		}
	}
	checkMaskKeys(run, "C19", views, ends)
	// the known C01 finding is not C19's
	k := 0
	for _, f := range run.Findings {
		if f.Rule == "write-refused" && f.Sig == "C19/write-refused/control/readfrom-fills-buffer-exactly" {
			continue
		}
		run.Findings[k] = f
		k++
	}
	run.Findings = run.Findings[:k]
}

// ---------------------------------------------------------------------------
// C20
// ---------------------------------------------------------------------------

func genC20(r *PRNG, tier string) *Scenario {
	scn := &Scenario{Prop: "C20", Class: "pool-shared", Seed: r.Uint64() >> 1, Sched: genSched(r)}
	nl := r.Range(1, 4)
	wbuf := genWBuf(r, 0)
	np := 0
	if r.Chance(1, 3) {
		np = 1
		scn.Prepared = []Prepared{{MT: r.Range(1, 2), Pay: Payload{Len: genLen(r, 4096, false), Seed: r.Uint64() >> 1}}}
	}
	withFaults := r.Chance(1, 2)
	if withFaults {
		scn.Class = "pool-shared-faults"
	}
	for li := 0; li < nl; li++ {
		realIsServer := r.Bool()
		end := &EndCfg{WriteBuf: wbuf, Pool: 1, Compression: r.Chance(1, 3)}
		l := Link{}
		if realIsServer {
			end.Server = r.PickS([]string{"mini", "mini", "nethttp"})
			l.Server = end
		} else {
			l.Client = end
		}
		var ops []WOp
		n := r.Range(1, 6)
		for i := 0; i < n; i++ {
			op := genWriteOp(r, effW(wbuf), false, np)
			if op.Pay.Len > 10000 {
				op.Pay.Len = r.Range(0, 10000)
				fixChunks(&op)
			}
			ops = append(ops, op)
			if op.End == "implicit" {
				// the next message op closes the writer implicitly; a prepared send there is outside the contract
				if r.Chance(1, 4) {
					ops = append(ops, genInvalidOp(r))
					for ops[len(ops)-1].Kind == "ctl" {
						ops[len(ops)-1] = genInvalidOp(r)
					}
				} else {
					ops = append(ops, WOp{Kind: "msg", MT: 2, Pay: Payload{Len: r.Range(0, 200), Seed: 7}})
				}
			}
			if r.Chance(1, 4) {
				ops = append(ops, genInvalidOp(r))
			}
			if r.Chance(1, 5) {
				ops = append(ops, WOp{Kind: "ctl", MT: r.Pick([]int{9, 10}), Pay: Payload{Len: r.Range(0, 125), Seed: r.Uint64() >> 1}, DlMs: 0})
			}
		}
		if r.Chance(1, 6) {
			// a writer that is simply never closed (outside the property: ends the run holding a buffer)
			ops = append(ops, WOp{Kind: "nw", MT: 2, Pay: Payload{Len: 5, Seed: 1}, Chunks: []Chunk{{How: "w", N: 5}}, End: "abandon"})
		}
		if r.Chance(1, 6) {
			// the application closes the connection while one of its messages is open and carries on with
			// the writer: the message ends by an error and the buffer still goes back exactly once
			for k := range ops {
				if ops[k].Kind == "nw" && len(ops[k].Chunks) > 0 && r.Bool() {
					at := r.Range(0, len(ops[k].Chunks))
					cs := append([]Chunk{}, ops[k].Chunks[:at]...)
					cs = append(cs, Chunk{How: "cc"})
					ops[k].Chunks = append(cs, ops[k].Chunks[at:]...)
					break
				}
			}
		}
		tasks := []TaskCfg{{Kind: "writer", W: ops}}
		if r.Chance(1, 3) {
			// another goroutine pings, and sometimes sends a close while a message of the writer is open:
			// that message then ends by an error and must still give its buffer back
			cops := []WOp{{Kind: "waitstep", Lvl: r.Range(0, 10+6*len(ops))}}
			if r.Bool() {
				cops = append(cops, WOp{Kind: "ctl", MT: 9, Pay: Payload{Len: 4, Seed: 5}, DlMs: 0})
			}
			cops = append(cops, WOp{Kind: "ctl", MT: 8, Code: 1000, DlMs: 0})
			tasks = append(tasks, TaskCfg{Kind: "ctl", W: cops})
		}
		setTasks(&l, realIsServer, tasks)
		cc := ConnCfg{}
		if withFaults && r.Bool() {
			f := OpFault{Side: "w", AfterHead: true, K: r.Range(0, 3*n+4), Kind: writeFaultKinds[r.Intn(len(writeFaultKinds))], N: r.Pick([]int{0, 1, 5, 14, 100})}
			if realIsServer {
				cc.FaultsB = []OpFault{f}
			} else {
				cc.FaultsA = []OpFault{f}
			}
		}
		scn.Links = append(scn.Links, l)
		scn.Net.Conns = append(scn.Net.Conns, cc)
	}
	return scn
}

func oracleC20(run *Run) {
	commonChecks(run)
	for _, p := range run.Panics {
		run.fail("C20", "panic", "panic", "%s", p)
	}
	if run.Reason != "done" {
		run.fail("C20", "stuck", run.Reason, "the run did not finish (%s)", run.Reason)
		return
	}
	pool := run.Pools[1]
	if pool == nil {
		return
	}
	pool.verifyFree()
	for _, b := range pool.bad {
		run.fail("C20", "touched-after-release", "poison", "%s", b)
		break
	}
	// per connection: Get and Put alternate, the buffer put is the one taken
	type st struct {
		held  bool
		id    int
		fresh bool // Get returned nil: the connection allocated its own buffer
	}
	state := map[int]*st{}
	owner := map[int]int{} // buffer id -> end currently holding it
	for _, ev := range pool.log {
		s := state[ev.End]
		if s == nil {
			s = &st{}
			state[ev.End] = s
		}
		if !ev.Put {
			if s.held {
				run.fail("C20", "get-while-holding", "balance", "connection %d took a second buffer at step %d while still holding one", ev.End, ev.Step)
				return
			}
			s.held, s.id, s.fresh = true, ev.ID, ev.Nil
			if !ev.Nil {
				owner[ev.ID] = ev.End
			}
			run.Obligations++
			continue
		}
		if !s.held {
			run.fail("C20", "put-without-get", "balance", "connection %d returned a buffer at step %d without holding one (double Put?)", ev.End, ev.Step)
			return
		}
		if !s.fresh && ev.ID != s.id {
			run.fail("C20", "wrong-buffer", "identity", "connection %d took buffer %d but returned buffer %d", ev.End, s.id, ev.ID)
			return
		}
		if o, ok := owner[ev.ID]; ok && o != ev.End {
			run.fail("C20", "wrong-buffer", "foreign", "connection %d returned buffer %d which connection %d is holding", ev.End, ev.ID, o)
			return
		}
		delete(owner, ev.ID)
		s.held = false
		if ev.ID > 0 || len(state) > 1 {
			run.Stats.Probes[pPoolMigrated]++
		}
	}
	// nothing held between messages: at the return of every message-level op that ends a message
	for i := range run.Scn.Links {
		e := realOfLink(run, i)
		if e == nil {
			continue
		}
		endID := i * 2
		if e.IsServer {
			endID++
		}
		for _, t := range e.Tasks {
			for _, r := range t.Hist {
				ends := false
				switch r.Op {
				case "WriteMessage", "WriteJSON":
					ends = true
				case "Message":
					ends = !containsAny(r.Note, "implicit", "abandoned")
				case "NextWriter":
					ends = r.Err != "" // a failed NextWriter leaves no message open
				}
				if !ends || r.Teardown {
					continue
				}
				bal := 0
				for _, ev := range pool.log {
					if ev.End != endID || ev.Step > r.Return {
						continue
					}
					if ev.Put {
						bal--
					} else {
						bal++
					}
				}
				if bal != 0 {
					run.fail("C20", "held-between-messages", r.Op, "%s: after %s returned (step %d, error %q) the connection holds %d pool buffer(s)", endName(e), r.Op, r.Return, r.Err, bal)
					return
				}
				run.Obligations++
			}
		}
		// the wire of every sharing connection is still well-formed and carries the right messages
		tv := decodeTap(wsTap(e), !e.IsServer, e.Negotiated)
		if tv.V != nil {
			run.fail("C20", "malformed-wire", tv.V.Rule, "%s wrote a malformed stream while sharing a pool: %s", endName(e), tv.V.Error())
			return
		}
		_, _, _, failed := writeSideFailure(e)
		checkTapPrefix(run, "C20", e, tv, failed)
	}
}

func containsAny(s string, subs ...string) bool {
	for _, x := range subs {
		for i := 0; i+len(x) <= len(s); i++ {
			if s[i:i+len(x)] == x {
				return true
			}
		}
	}
	return false
}
