package wsim

import "sort"

// PropDef binds a property to its scenario generator and oracle.
type PropDef struct {
	ID     string
	Num    uint64
	Race   bool // also explored in the race build
	Gen    func(r *PRNG, tier string) *Scenario
	// Sweep (optional, thorough tier): S consecutive runs of a worker share one
	// workload drawn from r and enumerate fault position k = 0..S-1 over it.
	Sweep  func(r *PRNG, k, S int) *Scenario
	SweepN int
	Oracle func(run *Run)
	Level  string
	Rule   string // how distinct/non-trivial is counted (for evidence)
}

var props = map[string]*PropDef{}

func register(p *PropDef) { props[p.ID] = p }

func propIDs() []string {
	var ids []string
	for id := range props {
		ids = append(ids, id)
	}
	sort.Strings(ids)
	return ids
}

// commonChecks: conditions every run must satisfy regardless of property;
// trouble here is harness trouble unless the property claims it.
func commonChecks(run *Run) {
	for _, h := range run.Harness {
		run.fail("HARNESS", "harness", "harness", "%s", h)
	}
	if run.Reason == "steps" {
		run.Discard = "step-cap" // inconclusive: the schedule starved the workload past the step budget
	}
	for _, e := range run.Reals {
		if e.Net != nil && (e.Net.LogOverflow() || e.Net.TapOverflow()) {
			run.Discard = "log-overflow"
		}
	}
}
