//go:build !race

package wsim

const RaceBuild = false

func raceDisable() {}
func raceEnable()  {}
