//go:build race

package wsim

import "runtime"

const RaceBuild = true

func raceDisable() { runtime.RaceDisable() }
func raceEnable()  { runtime.RaceEnable() }
