package wsim

// Reach measurements: after every explored run, cheap facts about what the run
// actually met are counted from the recorded history (task histories,
// per-connection transport call logs, dial results). They feed the "probes"
// section of the evidence file next to the tap-derived probes of the oracles;
// a counter that stays at zero for a property's workload means the workload or
// fault mix does not reach that situation. Nothing here influences a verdict,
// draws from the PRNG or runs inside the bubble.

type reachCounter map[string]uint64

func (rc reachCounter) add(k string) { rc[k]++ }

// reachOf counts the facts of one run into rc.
func reachOf(run *Run, rc reachCounter) {
	// API outcomes, and concurrency actually present in the history
	for _, t := range run.Tasks {
		for _, r := range t.Hist {
			if r.Teardown {
				continue
			}
			out := r.Err
			if out == "" {
				out = "ok"
			}
			rc.add("api " + r.Op + " -> " + out)
		}
	}
	for _, e := range run.Reals {
		if e == nil {
			continue
		}
		reachOverlap(e, rc)
	}
	// transport calls
	for _, c := range run.Conns {
		if c == nil {
			continue
		}
		calls := c.Calls()
		closed := false
		for i := range calls {
			ce := &calls[i]
			switch ce.Op {
			case 'R':
				switch {
				case ce.N > 0 && ce.Err == 3:
					rc.add("net read: bytes together with EOF")
				case ce.N > 0 && ce.Err == 2:
					rc.add("net read: bytes together with timeout")
				case ce.N > 0 && ce.Err != 0:
					rc.add("net read: bytes together with error")
				case ce.Err == 3:
					rc.add("net read: EOF alone")
				case ce.Err == 2:
					rc.add("net read: timeout alone")
				case ce.Err == 4:
					rc.add("net read: on closed connection")
				case ce.Err != 0:
					rc.add("net read: error alone")
				case ce.N == 1 && ce.Arg > 1:
					rc.add("net read: single byte delivered")
				case int64(ce.N) < ce.Arg:
					rc.add("net read: partial fill")
				default:
					rc.add("net read: buffer filled")
				}
			case 'W':
				switch {
				case ce.Err != 0 && ce.N > 0:
					rc.add("net write: short write with error")
				case ce.Err == 2:
					rc.add("net write: timeout, nothing written")
				case ce.Err == 4:
					rc.add("net write: on closed connection")
				case ce.Err != 0:
					rc.add("net write: error, nothing written")
				}
				if ce.Dl >= 0 {
					rc.add("net write: under an armed deadline")
				}
				if closed {
					rc.add("net write: after Close")
				}
			case 'D', 'r', 'w':
				if ce.Err != 0 {
					rc.add("net set-deadline: failed")
				}
			case 'C':
				if closed {
					rc.add("net close: repeated")
				}
				closed = true
			}
		}
	}
	// dial outcomes of the handshake families
	if run.HS != nil {
		for _, d := range run.HS.Dials {
			if d == nil {
				continue
			}
			switch {
			case d.Panic != "":
				rc.add("dial -> panic")
			case !d.Returned:
				rc.add("dial -> not returned")
			case d.Err == nil:
				rc.add("dial -> connected")
			default:
				rc.add("dial -> " + d.ErrClass)
			}
			if d.Proxy.Connects > 0 {
				rc.add("dial: CONNECT reached the proxy")
			}
			if d.Proxy.SocksTarget != "" {
				rc.add("dial: SOCKS5 request reached the proxy")
			}
			if d.Backend.SNI != "" || d.Proxy.SNI != "" {
				rc.add("dial: TLS ClientHello seen")
			}
			if d.Backend.Accepted > 0 {
				rc.add("dial: backend accepted a connection")
			}
		}
	}
	if run.Leaked > 0 {
		rc.add("run: tasks still blocked at teardown")
	}
	if len(run.Panics) > 0 {
		rc.add("run: panic recorded")
	}
}

// reachOverlap counts, for one real end, API calls of different tasks whose
// invoke/return intervals overlap in the simulator's step order: the
// concurrency the schedule really produced, as opposed to configured.
func reachOverlap(e *RealEnd, rc reachCounter) {
	ts := e.Tasks
	for i := 0; i < len(ts); i++ {
		for j := i + 1; j < len(ts); j++ {
			a, b := ts[i].Hist, ts[j].Hist
			x, y := 0, 0
			for x < len(a) && y < len(b) {
				ra, rb := a[x], b[y]
				if ra.Return == 0 || rb.Return == 0 {
					break
				}
				if ra.Invoke < rb.Return && rb.Invoke < ra.Return && ra.Return-ra.Invoke > 0 && rb.Return-rb.Invoke > 0 {
					k1, k2 := ra.Op, rb.Op
					if k2 < k1 {
						k1, k2 = k2, k1
					}
					rc.add("overlap " + k1 + " || " + k2)
				}
				if ra.Return <= rb.Return {
					x++
				} else {
					y++
				}
			}
		}
	}
}
