package wsim

import (
	"fmt"
	"hash/fnv"
	"io"
	"path/filepath"
	"runtime"
	"sort"
	"strconv"
	"strings"
	"testing"
	"testing/cryptotest"
	"testing/synctest"

	"github.com/gorilla/websocket"
)

// Finding is one oracle verdict.
type Finding struct {
	Prop   string `json:"prop"`
	Rule   string `json:"rule"`
	Sig    string `json:"sig"` // property/rule/discriminators, independent of seed and sizes
	Detail string `json:"detail"`
	Site   string `json:"site,omitempty"` // source position of the rule that fired
}

// Run is everything observable about one execution.
type Run struct {
	Scn       *Scenario
	Reason    string
	Reals     []*RealEnd // ready ends only
	Peers     []*PeerEnd
	RealAt    [maxLinks * 2]*RealEnd
	PeerAt    [maxLinks]*PeerEnd
	Tasks     []*Task
	Stats     Stats
	Tape      []int32
	Leaked    int    // tasks still blocked after teardown
	Deadlock  string // end-of-bubble deadlock panic text
	Harness   []string
	Panics    []string
	Pools     [4]*simPool
	PMSrc     [][]byte
	MaskStream []byte // every byte the key source handed out during the run
	Findings  []Finding
	Obligations int // oracle obligations discharged with work in flight
	Digest    uint64
	AllocBytes uint64 // bytes allocated during the run (measured for C07 only)
	Discard   string // non-empty: the run cannot be judged (counted, never a verdict)
	HS        *HSRun
	Conns     []*SimConn // every simulated connection end of the run, in creation order (pair k = ends 2k, 2k+1)
}

func (r *Run) fail(prop, rule, sig, format string, a ...interface{}) {
	site := ""
	if _, file, line, ok := runtime.Caller(1); ok {
		site = filepath.Base(file) + ":" + strconv.Itoa(line)
	}
	r.Findings = append(r.Findings, Finding{Prop: prop, Rule: rule, Sig: prop + "/" + rule + "/" + sig, Detail: fmt.Sprintf(format, a...), Site: site})
}

// Execute runs one scenario inside a fresh bubble. tape == nil explores with
// the PRNG derived from the scenario seed; otherwise the tape is replayed.
func Execute(t *testing.T, scn *Scenario, tape []int32) *Run {
	installMaskSource()
	run := &Run{Scn: scn}
	t.Run("r", func(t *testing.T) {
		cryptotest.SetGlobalRandom(t, scn.Seed^0xc0ffee)
		defer func() {
			if p := recover(); p != nil {
				msg := fmt.Sprint(p)
				if strings.Contains(msg, "deadlock") {
					run.Deadlock = msg
				} else {
					panic(p)
				}
			}
		}()
		var m0, m1 runtime.MemStats
		if scn.Prop == "C07" || scn.Prop == "C06" {
			runtime.ReadMemStats(&m0)
		}
		synctest.Test(t, func(t *testing.T) {
			execIn(t, scn, tape, run)
		})
		if scn.Prop == "C07" || scn.Prop == "C06" {
			runtime.ReadMemStats(&m1)
			run.AllocBytes = m1.TotalAlloc - m0.TotalAlloc
		}
	})
	return run
}

func execIn(t *testing.T, scn *Scenario, tape []int32, run *Run) {
	theArena.init()
	theArena.reset()
	theMask.reset(scn.Seed ^ 0x3a5c)
	ch := chooser{rng: NewPRNG(scn.Seed ^ 0x5ced)}
	if tape != nil {
		ch.useTap = true
		ch.replay = tape
	}
	s := newSim(scn.Sched, ch)
	s.maskSrc = theMask
	if scn.HS != nil {
		runHS(s, scn, run)
	} else {
		rn := &runner{sim: s, scn: scn}
		rn.net = s.NewNet(scn.Net)
		for k := 1; k < len(rn.pools); k++ {
			rn.pools[k] = &simPool{} // created by the root goroutine, before anyone can race for them
		}
		for i := range scn.Prepared {
			p := scn.Prepared[i]
			src := p.Pay.Bytes()
			if p.MT == websocket.CloseMessage && p.Code != 0 {
				src = closeBody(p.Code, p.Pay.Len)
			}
			keep := append([]byte{}, src...)
			pm, err := websocket.NewPreparedMessage(p.MT, src)
			if err != nil {
				if p.MT >= 8 && len(src) > 125 {
					// an invalid request refused at creation: sends of it are recorded as refused
					rn.pms = append(rn.pms, nil)
					rn.pmSrc = append(rn.pmSrc, keep)
					continue
				}
				run.Harness = append(run.Harness, "NewPreparedMessage: "+err.Error())
				return
			}
			if p.Mutate {
				for j := range src {
					src[j] ^= 0x5a
				}
			}
			rn.pms = append(rn.pms, pm)
			rn.pmSrc = append(rn.pmSrc, keep)
		}
		for i := range scn.Links {
			l := &scn.Links[i]
			if l.Client != nil {
				s.Reserve(len(l.CTasks))
			}
			if l.Server != nil {
				s.Reserve(len(l.STasks))
			}
			rn.registerLink(i)
		}
		for i := range scn.Links {
			rn.startLink(i)
		}
		run.Reason = s.Drive()
		run.Leaked = s.Teardown()
		for k, e := range rn.reals {
			if e != nil && isDone(e.done) {
				run.Reals = append(run.Reals, e)
				run.RealAt[k] = e
			}
		}
		for k, p := range rn.peers {
			if p != nil && isDone(p.done) {
				run.Peers = append(run.Peers, p)
				run.PeerAt[k] = p
			}
		}
		run.Pools = rn.pools
		run.PMSrc = rn.pmSrc
	}
	for i := 0; i < s.ntasks; i++ {
		tk := s.taskAt(i)
		if tk == nil {
			continue
		}
		if isDone(tk.finished) {
			tk.Finished = !tk.Late
			run.Tasks = append(run.Tasks, tk)
			if tk.Panic != "" {
				run.Panics = append(run.Panics, tk.Name+": "+tk.Panic)
			}
		}
	}
	for i := 0; i < s.connCount(); i++ {
		run.Conns = append(run.Conns, s.connAt(i))
	}
	run.Stats = s.stats
	run.Tape = s.ch.tape
	run.Harness = append(run.Harness, s.harness...)
	run.MaskStream = theMask.stream()
	run.Digest = digestRun(run, s)
}

//go:norace
func (s *Sim) taskAt(i int) *Task { return s.tasks[i] }

//go:norace
func (s *Sim) Reserve(n int) {
	s.lock()
	s.live += n
	s.unlock()
}

// digestRun hashes everything observable in canonical order: per-task
// histories, per-connection call logs and taps, final stats.
var traceOut io.Writer // when set, the digest input is also written here (determinism debugging)

func digestRun(run *Run, s *Sim) uint64 {
	h := fnv.New64a()
	w := func(format string, a ...interface{}) {
		fmt.Fprintf(h, format, a...)
		if traceOut != nil {
			fmt.Fprintf(traceOut, format, a...)
		}
	}
	w("reason=%s leaked=%d steps=%d sim=%d\n", run.Reason, run.Leaked, run.Stats.Steps, run.Stats.SimNanos)
	for _, t := range run.Tasks {
		w("task %d %s aborted=%v panic=%v\n", t.ID, t.Name, t.Aborted, t.Panic != "")
		for _, r := range t.Hist {
			w(" %s %d %d %d %d %d %s %d %d %x %s\n", r.Op, r.Idx, r.Invoke, r.Return, r.TInvoke, r.TReturn, r.Err, r.N, r.MsgType, fnvBytes(r.Data), r.Note)
		}
	}
	for i := 0; i < s.connCount(); i++ {
		c := s.connAt(i)
		w("conn %d closed=%v tap=%x\n", c.ID, c.IsClosed(), fnvBytes(c.Tap()))
		calls := c.Calls()
		// canonical order inside one step: two goroutines that both run in a step (one released, one woken
		// indirectly) may log non-parking calls in either order
		sort.SliceStable(calls, func(i, j int) bool {
			a, b := calls[i], calls[j]
			if a.Step != b.Step {
				return a.Step < b.Step
			}
			if a.Op != b.Op {
				return a.Op < b.Op
			}
			if a.Arg != b.Arg {
				return a.Arg < b.Arg
			}
			return a.Err < b.Err
		})
		for _, e := range calls {
			// (the all-ops index is not part of the digest: a non-parking Set*Deadline call of one
			// goroutine may be numbered before or after a Read another goroutine is just invoking)
			w(" %c %d %d %d %d %d %d\n", e.Op, e.Step, e.T, e.Arg, e.N, e.Err, e.Fault)
		}
	}
	for _, e := range run.Reals {
		w("end %d %v hs=%s neg=%v\n", e.Link, e.IsServer, e.HsErrClass, e.Negotiated)
		for _, hc := range e.Handlers {
			w(" h %d %q %d %d %d %d\n", hc.Op, hc.Data, hc.Code, hc.Delivered, hc.MsgIndex, hc.Step)
		}
	}
	return h.Sum64()
}

func fnvBytes(b []byte) uint64 {
	h := fnv.New64a()
	h.Write(b)
	return h.Sum64()
}

//go:norace
func (s *Sim) connCount() int { return s.nconns }

//go:norace
func (s *Sim) connAt(i int) *SimConn { return s.conns[i] }
