package wsim

import (
	"encoding/json"
	"unicode/utf8"
)

// ---------------------------------------------------------------------------
// Scenario: everything a run does is a function of (Scenario, tape).
// ---------------------------------------------------------------------------

type Payload struct {
	Len  int    `json:"len"`
	Kind string `json:"kind,omitempty"` // rand | zero | rep | text | json
	Seed uint64 `json:"seed,omitempty"`
}

// Bytes materialises the payload deterministically.
func (p Payload) Bytes() []byte {
	b := make([]byte, p.Len)
	switch p.Kind {
	case "zero":
	case "rep":
		pat := []byte("abcabcabd-0123")
		off := int(p.Seed % 7)
		for i := range b {
			b[i] = pat[(i+off)%len(pat)]
		}
	case "text":
		r := NewPRNG(p.Seed ^ 0x7e47)
		alphabet := []rune("hello wörld ☃ abc 𝄞 z")
		i := 0
		for i < len(b) {
			c := alphabet[r.Intn(len(alphabet))]
			n := utf8.RuneLen(c)
			if i+n > len(b) {
				b[i] = 'x'
				i++
				continue
			}
			utf8.EncodeRune(b[i:], c)
			i += n
		}
	case "json":
		return jsonDoc(p)
	default:
		NewPRNG(p.Seed ^ 0xda7a).Fill(b)
	}
	return b
}

// jsonValue is the value written by WriteJSON for a json payload.
type jsonValue struct {
	S string `json:"s"`
	I uint64 `json:"i"`
	A []int  `json:"a"`
}

func jsonVal(p Payload) jsonValue {
	s := make([]byte, p.Len)
	r := NewPRNG(p.Seed ^ 0x15)
	for i := range s {
		s[i] = "abcdefghijklmnopqrstuvwxyz <>&\"\\"[r.Intn(32)]
	}
	return jsonValue{S: string(s), I: p.Seed, A: []int{1, 2, int(p.Seed % 1000)}}
}

// jsonDoc is the wire text a peer would send for that value (no newline).
func jsonDoc(p Payload) []byte {
	b, _ := json.Marshal(jsonVal(p))
	return b
}

// EndCfg configures one real endpoint (the library under test).
type EndCfg struct {
	ReadBuf     int    `json:"rbuf"`
	WriteBuf    int    `json:"wbuf"`
	Pool        int    `json:"pool,omitempty"` // 0 none, k = shared pool number k
	Compression bool   `json:"comp,omitempty"` // EnableCompression on this endpoint
	Level       int    `json:"level,omitempty"`
	SetLevel    bool   `json:"set_level,omitempty"`
	NoWriteComp bool   `json:"no_write_comp,omitempty"` // EnableWriteCompression(false) at start
	ReadLimit   int64  `json:"read_limit,omitempty"`
	Server      string `json:"server,omitempty"` // mini | nethttp (server ends)
	HijackR     int    `json:"hijack_r,omitempty"`
	HijackW     int    `json:"hijack_w,omitempty"`
	HsTimeoutMs int64  `json:"hs_timeout_ms,omitempty"`
	Handlers    string `json:"handlers,omitempty"` // default | record | error
	HandlerErrAt int   `json:"handler_err_at,omitempty"`
	HandlerErrKind string `json:"handler_err_kind,omitempty"` // error mode: "" a private error value | eof io.EOF | ueof io.ErrUnexpectedEOF (any error value is the handler's right)
	ResetHandlers bool `json:"reset_handlers,omitempty"` // custom handlers are installed and then reset with nil before anything else: the defaults must be back
	Subprotocols []string `json:"subprotocols,omitempty"`
	ReqHeader   map[string][]string `json:"req_header,omitempty"` // client: application-supplied request headers
}

// Chunk is one write call on an open message writer.
type Chunk struct {
	How string `json:"how"` // w Write | s io.WriteString | rf ReadFrom (io.Copy) | z zero-length Write | e+ e- EnableWriteCompression while the message is open | l SetCompressionLevel(N) while the message is open | cc Conn.Close() while the message is open
	N   int    `json:"n"`
	RfChunk int `json:"rf_chunk,omitempty"` // reader chunk size for ReadFrom
	RfEOF   bool `json:"rf_eof,omitempty"`  // the source returns its last bytes together with io.EOF
}

// WOp is one step of a write program.
type WOp struct {
	Kind   string  `json:"k"` // msg nw json prep ctl ewc lvl wdl sleep close yield badtype bigctl fragctl
	MT     int     `json:"mt,omitempty"`
	Pay    Payload `json:"pay,omitempty"`
	Chunks []Chunk `json:"chunks,omitempty"`
	End    string  `json:"end,omitempty"` // close | implicit | abandon
	DlMs   int64   `json:"dl_ms,omitempty"`
	B      bool    `json:"b,omitempty"`
	Lvl    int     `json:"lvl,omitempty"`
	PM     int     `json:"pm,omitempty"`
	Code   int     `json:"code,omitempty"`
	Via    string  `json:"via,omitempty"` // close frames: ctl | msg | nw | prep
}

// ROp is one step of a read program (cycled until the connection fails).
type ROp struct {
	Kind    string `json:"k"` // rm ReadMessage | nr NextReader+Read | json ReadJSON | join JoinMessages | limit SetReadLimit(NewLimit)
	Sizes   []int  `json:"sizes,omitempty"`
	Abandon int    `json:"abandon,omitempty"` // nr: stop reading after this many bytes (-1/0 = read to EOF)
	Term    string `json:"term,omitempty"`
	// SetReadLimit during the connection's life: kind "limit" calls it between messages; on an "nr"
	// op SetLimit calls it once LimitAt bytes of the message have been read (0 = right after NextReader)
	SetLimit bool  `json:"set_limit,omitempty"`
	LimitAt  int   `json:"limit_at,omitempty"`
	NewLimit int64 `json:"new_limit,omitempty"`
}

// TaskCfg attaches a program to a real endpoint.
type TaskCfg struct {
	Kind    string `json:"kind"` // writer | reader | ctl | closer
	W       []WOp  `json:"w,omitempty"`
	R       []ROp  `json:"r,omitempty"`
	MaxMsgs int    `json:"max_msgs,omitempty"` // reader: stop after this many messages (0 = until error)
	StartMs int64  `json:"start_ms,omitempty"`
	ExtraReads int `json:"extra_reads,omitempty"` // reader: NextReader calls after the first error
}

// SItem is one item of a scripted peer's script.
type SItem struct {
	Kind string `json:"k"` // msg | ctl | raw | pause | bytes
	// msg
	MT    int     `json:"mt,omitempty"`
	Pay   Payload `json:"pay,omitempty"`
	Frags []int   `json:"frags,omitempty"` // wire-payload bytes per fragment; the rest goes into the final one
	Comp  int     `json:"comp,omitempty"`  // 0 none, 1+deflate kind
	Lvl   int     `json:"lvl,omitempty"`
	Block int     `json:"block,omitempty"`
	Ctls  []CtlAt `json:"ctls,omitempty"`
	Open  bool    `json:"open,omitempty"` // leave the message unfinished (no FIN frame)
	StallAtFrag int `json:"stall_at_frag,omitempty"` // k>0: send only the header of fragment k-1, then stall forever
	// ctl
	Op     int    `json:"op,omitempty"`
	Data   []byte `json:"data,omitempty"`
	Code   int    `json:"code,omitempty"`
	Reason string `json:"reason,omitempty"`
	NoBody bool   `json:"no_body,omitempty"`
	// raw
	B0       byte   `json:"b0,omitempty"`
	FlipMask bool   `json:"flip_mask,omitempty"`
	LenCode  byte   `json:"len_code,omitempty"`
	Claimed  uint64 `json:"claimed,omitempty"`
	// pause
	PauseMs int64 `json:"pause_ms,omitempty"`
	KeyMode string `json:"key_mode,omitempty"` // rand | zero | ones
}

type CtlAt struct {
	After int    `json:"after"` // after fragment index (0-based); -1 = before the first
	Op    int    `json:"op"`
	Data  []byte `json:"data,omitempty"`
}

// Link is one connection of the run: two ends, each real or scripted.
type Link struct {
	Client   *EndCfg   `json:"client,omitempty"` // nil = scripted
	Server   *EndCfg   `json:"server,omitempty"`
	CTasks   []TaskCfg `json:"ctasks,omitempty"`
	STasks   []TaskCfg `json:"stasks,omitempty"`
	Script   []SItem   `json:"script,omitempty"` // scripted end's output after the handshake
	Glue     int       `json:"glue,omitempty"`   // scripted end: 0 wait for the handshake, 1 send script glued to its handshake bytes
	PeerComp string    `json:"peer_comp,omitempty"` // scripted end's handshake behaviour for extensions: "" mirror | both | none | server_only | client_only
	PeerExtReply string `json:"peer_ext_reply,omitempty"` // scripted server: literal Sec-WebSocket-Extensions value of the 101 (PeerComp then states what it means)
	PeerExt  []string  `json:"peer_ext,omitempty"`  // scripted client: explicit Sec-WebSocket-Extensions header lines (overrides PeerComp)
	ScriptChunk int    `json:"script_chunk,omitempty"` // scripted end writes at most this many bytes per Write (0 = whole items)
	PeerClose string   `json:"peer_close,omitempty"` // what the scripted end does at the end of the script: "" keep open | fin | rst
}

type Prepared struct {
	MT  int     `json:"mt"`
	Pay Payload `json:"pay"`
	Mutate bool `json:"mutate,omitempty"` // overwrite the caller's slice after creation
	Code   int  `json:"code,omitempty"`   // close messages: status code (payload = code + reason of Pay.Len-2 bytes)
}

type Scenario struct {
	Prop     string     `json:"prop"`
	Class    string     `json:"class"`
	Seed     uint64     `json:"seed"`
	Sched    SchedCfg   `json:"sched"`
	Net      NetCfg     `json:"net"`
	Links    []Link     `json:"links,omitempty"`
	Prepared []Prepared `json:"prepared,omitempty"`
	HS       *HSScn     `json:"hs,omitempty"`
	Note     string     `json:"note,omitempty"`
}

// Replay is the replay-file format.
type Replay struct {
	Property  string    `json:"property"`
	Rule      string    `json:"rule"`
	Signature string    `json:"signature"`
	Detail    string    `json:"detail"`
	BaseSeed  uint64    `json:"base_seed"`
	Worker    int       `json:"worker"`
	Index     int       `json:"index"`
	Race      bool      `json:"race_build,omitempty"`
	Scenario  *Scenario `json:"scenario"`
	Tape      []int32   `json:"tape"`
	Shrunk    int       `json:"shrunk_from_steps,omitempty"`
}

func cloneScenario(s *Scenario) *Scenario {
	b, _ := json.Marshal(s)
	var c Scenario
	_ = json.Unmarshal(b, &c)
	return &c
}
