package wsim

import (
	"fmt"
	"runtime"
	"sync"
	"testing/synctest"
	"time"
)

// ---------------------------------------------------------------------------
// Serialising scheduler.
//
// Every goroutine that touches the simulated network, and every task between
// two API calls, parks: it publishes a record and blocks on a private channel.
// The driver (the bubble's root goroutine) waits for quiescence
// (synctest.Wait), computes the set of enabled events from the parked records
// and the network state, lets the choice source (PRNG or replay tape) pick
// one, and releases exactly that one.
//
// All simulator state that is shared between goroutines is touched only in
// //go:norace functions and all simulator synchronisation is bracketed by
// raceDisable/raceEnable, so in the race build the simulator contributes no
// happens-before edges between library goroutines and no reports of its own.
// For the same reason shared state uses intrusive lists and pre-sized arrays:
// maps and growing slices call self-instrumenting runtime helpers.
// ---------------------------------------------------------------------------

type opKind uint8

const (
	opYield opKind = iota
	opRead
	opWrite
	opClose
	opAccept
	opDial
	opWait
)

func (k opKind) String() string {
	switch k {
	case opYield:
		return "yield"
	case opRead:
		return "read"
	case opWrite:
		return "write"
	case opClose:
		return "close"
	case opAccept:
		return "accept"
	case opDial:
		return "dial"
	case opWait:
		return "wait"
	}
	return "?"
}

type parkRec struct {
	next    *parkRec
	kind    opKind
	arrival uint64
	conn    *SimConn
	lis     *Listener
	task    *Task
	waitVar *int
	waitVal int
	n       int // length of the caller's buffer
	done    int // bytes already accepted (write)
	fault   int // injected fault kind for this op (0 = none)
	faultN  int // short-write length for faultShort

	// outcome, set by the driver before wake
	resN     int
	resErr   error
	resAgain bool // write: copy resN bytes, then park again
	resConn  *SimConn
	abort    bool
	wake     chan struct{}
}

// key orders parked records deterministically, independent of arrival order.
//
//go:norace
func (r *parkRec) key() (int, int, int) {
	switch r.kind {
	case opYield, opWait:
		if r.task == nil {
			return 2, 1 << 21, int(r.arrival)
		}
		return 0, r.task.ID, 0
	case opAccept:
		return 1, r.lis.id, 0
	case opDial:
		if r.task != nil {
			return 2, r.task.ID, 0
		}
		return 2, 1 << 20, int(r.arrival)
	default:
		return 3, r.conn.ID, int(r.kind)
	}
}

// Choice source: PRNG when exploring, tape when replaying.
type chooser struct {
	rng    *PRNG
	replay []int32
	pos    int
	tape   []int32
	useTap bool
}

func (c *chooser) choose(n int) int {
	if n <= 0 {
		n = 1
	}
	var v int
	if c.useTap {
		if c.pos < len(c.replay) {
			v = int(c.replay[c.pos]) % n
			if v < 0 {
				v = -v
			}
		}
		c.pos++
	} else {
		v = c.rng.Intn(n)
	}
	c.tape = append(c.tape, int32(v))
	return v
}

// SchedCfg is the part of a scenario that configures the driver.
type SchedCfg struct {
	Personality string `json:"personality,omitempty"` // uniform | netfirst | starve | bursty
	StarveKey   int    `json:"starve_key,omitempty"`
	TickPermil  int    `json:"tick_permil,omitempty"` // chance (‰) of advancing the clock while events are enabled
	MaxSteps    int    `json:"max_steps,omitempty"`
	IdleHorizon int64  `json:"idle_horizon_ms,omitempty"` // how far the clock is run forward at quiescence
	ReadMode    string `json:"read_mode,omitempty"`       // all | one | uniform | mixed
	PlainErr        bool `json:"plain_err,omitempty"`         // injected errors of operation faults are not net.Errors
	YieldOnDeadline bool `json:"yield_on_deadline,omitempty"` // deadline calls are scheduling points too (the caller parks before the call takes effect)
}

type Stats struct {
	Steps       uint64
	Ticks       uint64
	SimNanos    int64
	Faults      [16]uint64 // indexed by fault kind
	Probes      [numProbes]uint64
	MaxEnabled  int
	ChoicePoint uint64 // steps at which more than one event was enabled
}

type Sim struct {
	cfg   SchedCfg
	ch    chooser
	start time.Time

	mu      sync.Mutex
	parked  *parkRec
	arrival uint64
	kick    chan struct{}

	step     uint64
	stepI    int // mirror of step for WaitStep
	tearing  bool
	tasks    [maxTasks]*Task
	ntasks   int
	live     int // tasks not yet finished
	conns    [maxConns]*SimConn
	nconns   int
	liss     [8]*Listener
	nlis     int
	stats    Stats
	scratch  []*parkRec
	events   []event
	burstKey int
	burstN   int
	timeoutDue bool // some parked op is enabled because its deadline has passed: do not advance the clock first

	maskSrc *maskSource
	harness []string // harness-level trouble noted during the run
}

const (
	maxTasks = 64
	maxConns = 256
)

type event struct {
	rec  *parkRec
	tick bool
}

func newSim(cfg SchedCfg, ch chooser) *Sim {
	if cfg.MaxSteps == 0 {
		cfg.MaxSteps = 200000
	}
	if cfg.IdleHorizon == 0 {
		cfg.IdleHorizon = 3600 * 1000
	}
	s := &Sim{cfg: cfg, ch: ch}
	s.kick = make(chan struct{}, 1)
	s.start = time.Now()
	s.scratch = make([]*parkRec, 0, 256)
	s.events = make([]event, 0, 256)
	return s
}

//go:norace
func (s *Sim) lock() { raceDisable(); s.mu.Lock() }

//go:norace
func (s *Sim) unlock() { s.mu.Unlock(); raceEnable() }

// Step is the driver's global event sequence number.
//
//go:norace
func (s *Sim) Step() uint64 { return s.step }

// Now is simulated time since the start of the run.
func (s *Sim) Now() time.Duration { return time.Since(s.start) }

// park publishes r and blocks until the driver releases it.
//
//go:norace
func (s *Sim) park(r *parkRec) {
	raceDisable()
	r.wake = make(chan struct{})
	s.mu.Lock()
	r.arrival = s.arrival
	s.arrival++
	r.next = s.parked
	s.parked = r
	s.mu.Unlock()
	select {
	case s.kick <- struct{}{}:
	default:
	}
	<-r.wake
	raceEnable()
}

//go:norace
func (s *Sim) unpark(r *parkRec) {
	// remove from the intrusive list
	s.mu.Lock()
	pp := &s.parked
	for *pp != nil {
		if *pp == r {
			*pp = r.next
			break
		}
		pp = &(*pp).next
	}
	r.next = nil
	s.mu.Unlock()
	r.wake <- struct{}{}
}

//go:norace
func (s *Sim) quiesce() {
	raceDisable()
	synctest.Wait()
	raceEnable()
}

// snapshot returns the parked records in deterministic order.
//
//go:norace
func (s *Sim) snapshot() []*parkRec {
	raceDisable()
	s.mu.Lock()
	recs := s.scratch[:0]
	for r := s.parked; r != nil; r = r.next {
		recs = append(recs, r)
	}
	s.mu.Unlock()
	// insertion sort without closures (closures may be instrumented)
	for i := 1; i < len(recs); i++ {
		for j := i; j > 0 && recLess(recs[j], recs[j-1]); j-- {
			recs[j], recs[j-1] = recs[j-1], recs[j]
		}
	}
	s.scratch = recs
	raceEnable()
	return recs
}

// sleepKick advances the bubble clock by at most d, returning early (at that
// simulated instant) as soon as any goroutine parks a new record.
//
//go:norace
func (s *Sim) sleepKick(d time.Duration) (kicked bool) {
	// the timer is created outside the race-disabled region: time's lazily
	// initialised globals must be published with their real synchronisation
	t := time.NewTimer(d)
	raceDisable()
	select {
	case <-s.kick:
	default:
	}
	select {
	case <-s.kick:
		kicked = true
		t.Stop()
	case <-t.C:
	}
	raceEnable()
	s.stats.Ticks++
	return
}

// ---------------------------------------------------------------------------
// Tasks
// ---------------------------------------------------------------------------

type abortRun struct{}

// OpRec is one entry of a task's history.
type OpRec struct {
	Op      string `json:"op"`
	Idx     int    `json:"idx"`
	Invoke  uint64 `json:"inv"`
	Return  uint64 `json:"ret"`
	TInvoke int64  `json:"t_inv"` // simulated ns
	TReturn int64  `json:"t_ret"`
	Err     string `json:"err,omitempty"` // error class
	ErrText string `json:"err_text,omitempty"`
	N       int    `json:"n,omitempty"`
	N2      int    `json:"n2,omitempty"`
	MsgType int    `json:"mt,omitempty"`
	PayLen  int    `json:"pay_len,omitempty"` // payload length of the whole message the op belongs to
	Data    []byte `json:"-"`
	Note    string `json:"note,omitempty"`
	Teardown bool  `json:"teardown,omitempty"` // the call returned while the run was being torn down
	errVal  error
}

type Task struct {
	ID       int
	Name     string
	sim      *Sim
	Hist     []*OpRec
	Done     bool
	Aborted  bool
	Panic    string
	Late     bool // the task ended during teardown (it was still blocked when the run was over)
	Finished bool // the task ended by itself, before teardown (set by the root goroutine after the run)
	finished chan struct{}
}

// Go starts a task goroutine. It must be called from the root goroutine or
// from another task (the go statement is the only synchronisation between
// them, as in an application).
//
func (s *Sim) GoID(id int, name string, f func(t *Task)) *Task {
	return s.goID(id, name, f, false)
}

// GoReserved starts a task whose liveness was already counted by Reserve.
func (s *Sim) GoReserved(id int, name string, f func(t *Task)) *Task {
	return s.goID(id, name, f, true)
}

//go:norace
func (s *Sim) goID(id int, name string, f func(t *Task), reserved bool) *Task {
	s.lock()
	t := &Task{ID: id, Name: name, sim: s}
	t.finished = make(chan struct{})
	if s.tasks[id] != nil {
		panic("wsim: duplicate task id")
	}
	s.tasks[id] = t
	if id >= s.ntasks {
		s.ntasks = id + 1
	}
	if !reserved {
		s.live++
	}
	s.unlock()
	go t.run(f)
	return t
}

func (t *Task) run(f func(t *Task)) {
	defer func() {
		if r := recover(); r != nil {
			if _, ok := r.(abortRun); ok {
				t.Aborted = true
			} else {
				t.Panic = fmt.Sprintf("%v\n%s", r, stackTrace())
			}
		}
		t.Done = true
		t.Late = t.sim.isTearing() // ended only because the run was being torn down
		t.sim.taskDone()
		close(t.finished) // real edge: the oracle may read t.Hist after <-finished
	}()
	t.Yield()
	f(t)
}

//go:norace
func (s *Sim) taskDone() {
	s.lock()
	s.live--
	s.unlock()
	raceDisable()
	select {
	case s.kick <- struct{}{}:
	default:
	}
	raceEnable()
}

// Yield parks the task with an always-enabled event.
func (t *Task) Yield() {
	r := &parkRec{kind: opYield, task: t}
	t.sim.park(r)
	if r.abort {
		panic(abortRun{})
	}
}

// Begin/End bracket one API call in the task's history.
func (t *Task) Begin(op string, idx int) *OpRec {
	r := &OpRec{Op: op, Idx: idx, Invoke: t.sim.Step(), TInvoke: int64(t.sim.Now())}
	t.Hist = append(t.Hist, r)
	return r
}

func (t *Task) End(r *OpRec, err error) {
	r.Return = t.sim.Step()
	r.TReturn = int64(t.sim.Now())
	r.Teardown = t.sim.isTearing()
	r.errVal = err
	r.Err = classify(err)
	if err != nil {
		r.ErrText = err.Error()
		if len(r.ErrText) > 200 {
			r.ErrText = r.ErrText[:200]
		}
	}
}

// WaitStep parks the calling goroutine until the driver has taken n steps.
func (s *Sim) WaitStep(t *Task, n int) {
	r := &parkRec{kind: opWait, task: t, waitVar: &s.stepI, waitVal: n}
	s.park(r)
	if r.abort && t != nil {
		panic(abortRun{})
	}
}

// Sleep blocks the task for d of simulated time.
func (t *Task) Sleep(d time.Duration) {
	time.Sleep(d)
	t.Yield()
}

// ---------------------------------------------------------------------------
// Driver
// ---------------------------------------------------------------------------

// Drive runs the scheduler until every task has finished, nothing can happen
// any more, or the step cap is hit. It returns why it stopped.
func (s *Sim) Drive() string {
	reason := "steps"
	for int(s.step) < s.cfg.MaxSteps {
		s.quiesce()
		recs := s.snapshot()
		if s.liveTasks() == 0 {
			reason = "done"
			break
		}
		evs, nextT := s.enabled(recs)
		if len(evs) == 0 && s.skipToWaitStep(recs) {
			continue
		}
		if len(evs) == 0 {
			d := time.Duration(s.cfg.IdleHorizon) * time.Millisecond
			timed := false
			if nextT > 0 {
				d = nextT
				timed = true
			}
			if !s.sleepKick(d) && !timed {
				reason = "quiescent"
				break
			}
			continue
		}
		if len(evs) > s.stats.MaxEnabled {
			s.stats.MaxEnabled = len(evs)
		}
		if len(evs) > 1 {
			s.stats.ChoicePoint++
		}
		if s.cfg.TickPermil > 0 && !s.timeoutDue && int(s.stats.Ticks) < s.cfg.MaxSteps && s.ch.choose(1000) >= 1000-s.cfg.TickPermil {
			q := []time.Duration{time.Millisecond, 100 * time.Millisecond, time.Second, 10 * time.Second}[s.ch.choose(4)]
			if nextT > 0 && nextT < q {
				q = nextT
			}
			s.sleepKick(q)
			continue
		}
		e := evs[s.pick(evs)]
		s.step++
		s.stepI++
		s.stats.Steps++
		s.apply(e.rec)
	}
	s.stats.SimNanos = int64(s.Now())
	return reason
}

// skipToWaitStep: nothing is enabled but somebody waits for a step count that
// the idle run would never reach: jump the counter to the smallest such value.
//
//go:norace
func (s *Sim) skipToWaitStep(recs []*parkRec) bool {
	best := -1
	for _, r := range recs {
		if r.kind == opWait && r.waitVar == &s.stepI && (best < 0 || r.waitVal < best) {
			best = r.waitVal
		}
	}
	if best < 0 {
		return false
	}
	s.stepI = best
	return true
}

//go:norace
func (s *Sim) liveTasks() int {
	s.lock()
	n := s.live
	s.unlock()
	return n
}

// pick applies the scheduler personality to the enabled list.
//
//go:norace
func (s *Sim) pick(evs []event) int {
	n := len(evs)
	if n == 1 {
		return 0
	}
	switch s.cfg.Personality {
	case "netfirst":
		// three times out of four prefer transport ops over task yields
		if s.ch.choose(4) != 0 {
			k := 0
			for i := range evs {
				if evs[i].rec.kind != opYield {
					evs[k], evs[i] = evs[i], evs[k]
					k++
				}
			}
			if k > 0 {
				return s.ch.choose(k)
			}
		}
	case "starve":
		// nine times out of ten do not run the starved key if anything else can run
		if s.ch.choose(10) != 0 {
			k := 0
			for i := range evs {
				a, b, _ := evs[i].rec.key()
				if !((a == 0 && b == s.cfg.StarveKey) || (a == 3 && b == s.cfg.StarveKey-1000)) {
					evs[k], evs[i] = evs[i], evs[k]
					k++
				}
			}
			if k > 0 {
				return s.ch.choose(k)
			}
		}
	case "bursty":
		// keep running the same key for a while
		if s.burstN > 0 {
			for i := range evs {
				a, b, _ := evs[i].rec.key()
				if a*100000+b == s.burstKey {
					s.burstN--
					return i
				}
			}
		}
		i := s.ch.choose(n)
		a, b, _ := evs[i].rec.key()
		s.burstKey = a*100000 + b
		s.burstN = s.ch.choose(12)
		return i
	}
	return s.ch.choose(n)
}

// Teardown force-closes the network and releases everything that is parked so
// that all goroutines can exit. It returns the number of tasks that did not
// finish (blocked somewhere other than the simulated network).
func (s *Sim) Teardown() int {
	s.setTearing()
	for iter := 0; iter < 2000; iter++ {
		s.quiesce()
		recs := s.snapshot()
		if len(recs) == 0 {
			if s.liveTasks() == 0 {
				break
			}
			// let pending timers fire
			if !s.sleepKick(2*time.Hour) && iter > 3 {
				break
			}
			continue
		}
		for _, r := range recs {
			s.forceRelease(r)
		}
	}
	s.quiesce()
	return s.liveTasks()
}

//go:norace
func (s *Sim) isTearing() bool { return s.tearing }

//go:norace
func (s *Sim) setTearing() {
	s.lock()
	s.tearing = true
	for i := 0; i < s.nconns; i++ {
		s.conns[i].closed = true
	}
	for i := 0; i < s.nlis; i++ {
		s.liss[i].closed = true
	}
	s.unlock()
}

//go:norace
func (s *Sim) forceRelease(r *parkRec) {
	raceDisable()
	r.abort = true
	r.resN = 0
	r.resAgain = false
	r.resErr = errClosed
	s.unpark(r)
	raceEnable()
}

//go:norace
func recLess(a, b *parkRec) bool {
	a1, a2, a3 := a.key()
	b1, b2, b3 := b.key()
	if a1 != b1 {
		return a1 < b1
	}
	if a2 != b2 {
		return a2 < b2
	}
	if a3 != b3 {
		return a3 < b3
	}
	return a.arrival < b.arrival
}

func runtimeStack(buf []byte) int { return runtime.Stack(buf, false) }

func stackTrace() string {
	buf := make([]byte, 8192)
	n := runtimeStack(buf)
	return string(buf[:n])
}
