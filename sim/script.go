package wsim

import (
	"wsim/wsframe"
)

// ---------------------------------------------------------------------------
// Scripted peer: script expansion
// ---------------------------------------------------------------------------

// Seg is a run of bytes the scripted peer writes, followed by a pause.
type Seg struct {
	Data     []byte
	PauseMs  int64 // 0 none, -1 forever
	WaitStep int   // before writing: wait until the driver has taken this many steps
}

// Exp is what the script encodes, in wire order (the delivery model's input).
type Exp struct {
	Control   bool
	Op        int // message type or control opcode
	Payload   []byte
	Complete  bool // data message: a FIN frame is in the script
	AtBytes   int  // control inside a message: application bytes of that message fully on the wire before it (uncompressed only)
	Inside    bool
	CloseCode int
	CloseText string
	Violation string // raw item: name of the violation class ("" for conformant raw frames)
	StartOff  int    // byte offset in the script where the item's first frame starts
	EndOff    int    // offset just past its last frame
	WireLen   int    // data message: total wire payload bytes (what the read limit counts)
	Compressed bool
	FragEnds  []int  // data message: script offsets just past each of its frames
	FragHdrEnds []int // offsets just past each data frame's header
	FragWire  []int  // wire payload bytes per data frame
	StallHdrEnd int  // >0: the peer stalls forever right after this offset (header of a frame)
}

type expander struct {
	masked bool
	rng    *PRNG
	out    []byte
	segs   []Seg
	exps   []Exp
	waitStep int
}

func (e *expander) key(mode string) [4]byte {
	var k [4]byte
	switch mode {
	case "zero":
	case "ones":
		k = [4]byte{0xff, 0xff, 0xff, 0xff}
	default:
		e.rng.Fill(k[:])
	}
	return k
}

func (e *expander) frame(f wsframe.Frame, mode string) {
	f.Masked = e.masked
	if f.Masked {
		f.Key = e.key(mode)
	}
	e.out = wsframe.Append(e.out, f)
}

func (e *expander) flush(pause int64) {
	if len(e.out) > 0 || pause != 0 {
		e.segs = append(e.segs, Seg{Data: e.out, PauseMs: pause, WaitStep: e.waitStep})
		e.out = nil
		e.waitStep = 0
	}
}

func (e *expander) total() int {
	n := len(e.out)
	for _, s := range e.segs {
		n += len(s.Data)
	}
	return n
}

// ExpandScript turns script items into byte segments and the expected view.
// fromClient: the scripted peer plays the client role (its frames are masked).
func ExpandScript(items []SItem, fromClient bool, seed uint64) ([]Seg, []Exp) {
	e := &expander{masked: fromClient, rng: NewPRNG(seed ^ 0x5c819)}
	for _, it := range items {
		switch it.Kind {
		case "pause":
			e.flush(it.PauseMs)
		case "waitstep":
			e.flush(0)
			e.waitStep = int(it.PauseMs)
		case "ctl":
			data := it.Data
			x := Exp{Control: true, Op: it.Op, StartOff: e.total()}
			if it.Op == wsframe.OpClose {
				if it.NoBody {
					data = nil
					x.CloseCode = 1005
				} else {
					data = append([]byte{byte(it.Code >> 8), byte(it.Code)}, it.Reason...)
					x.CloseCode = it.Code
					x.CloseText = it.Reason
				}
			}
			x.Payload = data
			e.frame(wsframe.Frame{Fin: true, Opcode: byte(it.Op), Payload: data}, it.KeyMode)
			x.EndOff = e.total()
			e.exps = append(e.exps, x)
		case "msg":
			app := it.Pay.Bytes()
			wire := app
			if it.Comp > 0 {
				wire = wsframe.Deflate(it.Comp-1, it.Lvl, app, it.Block)
			}
			x := Exp{Op: it.MT, Payload: app, Complete: !it.Open, StartOff: e.total(), WireLen: len(wire), Compressed: it.Comp > 0}
			msgIdx := len(e.exps)
			e.exps = append(e.exps, x)
			// fragment boundaries
			var parts [][]byte
			rest := wire
			for _, n := range it.Frags {
				if n > len(rest) {
					n = len(rest)
				}
				parts = append(parts, rest[:n])
				rest = rest[n:]
			}
			parts = append(parts, rest)
			sent := 0
			ctlAt := func(after int) {
				for _, c := range it.Ctls {
					if c.After == after {
						cx := Exp{Control: true, Op: c.Op, Payload: c.Data, Inside: after >= 0 && after < len(parts)-1, AtBytes: sent, StartOff: e.total()}
						e.frame(wsframe.Frame{Fin: true, Opcode: byte(c.Op), Payload: c.Data}, it.KeyMode)
						cx.EndOff = e.total()
						e.exps = append(e.exps, cx)
					}
				}
			}
			ctlAt(-1)
			for i, p := range parts {
				op := byte(wsframe.OpCont)
				if i == 0 {
					op = byte(it.MT)
				}
				last := i == len(parts)-1
				before := e.total()
				if it.StallAtFrag > 0 && i == it.StallAtFrag-1 {
					// header only, then silence: a reader that waits for the payload hangs
					mark := len(e.out)
					e.frame(wsframe.Frame{Fin: last && !it.Open, Rsv1: i == 0 && it.Comp > 0, Opcode: op, Payload: p}, it.KeyMode)
					e.out = e.out[:len(e.out)-len(p)]
					_ = mark
					m := &e.exps[msgIdx]
					m.Complete = false
					m.StallHdrEnd = e.total()
					m.FragEnds = append(m.FragEnds, e.total())
					m.FragHdrEnds = append(m.FragHdrEnds, e.total())
					m.FragWire = append(m.FragWire, len(p))
					e.flush(-1)
					break
				}
				e.frame(wsframe.Frame{Fin: last && !it.Open, Rsv1: i == 0 && it.Comp > 0, Opcode: op, Payload: p}, it.KeyMode)
				m := &e.exps[msgIdx]
				m.FragEnds = append(m.FragEnds, e.total())
				m.FragHdrEnds = append(m.FragHdrEnds, e.total()-len(p))
				m.FragWire = append(m.FragWire, len(p))
				_ = before
				sent += len(p)
				if !last {
					ctlAt(i)
				}
			}
			e.exps[msgIdx].EndOff = e.total()
			ctlAt(len(parts) - 1)
		case "raw":
			x := Exp{Control: it.B0&0x08 != 0, Op: int(it.B0 & 0x0f), Violation: it.Reason, StartOff: e.total()}
			if it.Reason == "" {
				x.Violation = "raw"
			}
			masked := e.masked != it.FlipMask
			data := it.Pay.Bytes()
			if it.Data != nil {
				data = it.Data
			}
			var k [4]byte
			if masked {
				k = e.key(it.KeyMode)
			}
			if it.LenCode != 0 {
				e.out = wsframe.AppendRawHeader(e.out, it.B0, masked, k, it.LenCode, it.Claimed)
				at := len(e.out)
				e.out = append(e.out, data...)
				if masked {
					for i := at; i < len(e.out); i++ {
						e.out[i] ^= k[(i-at)&3]
					}
				}
			} else {
				f := wsframe.Frame{Fin: it.B0&0x80 != 0, Rsv1: it.B0&0x40 != 0, Rsv2: it.B0&0x20 != 0, Rsv3: it.B0&0x10 != 0,
					Opcode: it.B0 & 0x0f, Masked: masked, Key: k, Payload: data}
				e.out = wsframe.Append(e.out, f)
			}
			x.Payload = data
			x.EndOff = e.total()
			e.exps = append(e.exps, x)
		case "bytes":
			e.out = append(e.out, it.Data...)
		}
	}
	e.flush(0)
	return e.segs, e.exps
}
