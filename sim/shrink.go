package wsim

import (
	"testing"
	"time"
)

// minimise shrinks (scenario, tape) while the same signature keeps firing.
func minimise(t *testing.T, pd *PropDef, scn *Scenario, run *Run, f Finding) *Replay {
	best := cloneScenario(scn)
	tape := append([]int32{}, run.Tape...)
	detail := f.Detail
	origSteps := int(run.Stats.Steps)
	execs := 0
	deadline := time.Now().Add(20 * time.Second)
	try := func(s *Scenario, tp []int32) (bool, *Run) {
		if execs >= 400 || time.Now().After(deadline) {
			return false, nil
		}
		execs++
		r := judge(t, pd, s, tp)
		for _, g := range r.Findings {
			if g.Sig == f.Sig {
				detail = g.Detail
				return true, r
			}
		}
		return false, nil
	}
	// the recorded tape must reproduce the finding at all
	ok, r0 := try(best, tape)
	if !ok {
		return &Replay{Property: pd.ID, Rule: f.Rule, Signature: f.Sig, Detail: "NOT REPRODUCIBLE WITH ITS OWN TAPE: " + f.Detail, Scenario: best, Tape: tape}
	}
	tape = append([]int32{}, r0.Tape...)
	// 1. schedule: all-zero tape, then zero ever smaller suffixes
	if ok, r := try(best, []int32{}); ok {
		tape = trimZeros(r.Tape)
	} else {
		for cut := len(tape) / 2; cut > 0 && cut < len(tape); cut += (len(tape) - cut + 1) / 2 {
			cand := append([]int32{}, tape[:cut]...)
			if ok, r := try(best, cand); ok {
				tape = trimZeros(r.Tape)
				if len(tape) > cut {
					tape = tape[:cut]
				}
				break
			}
			if len(tape)-cut <= 1 {
				break
			}
		}
	}
	// 2. scenario simplifications, to a fixed point
	for progress := true; progress; {
		progress = false
		for _, cand := range shrinkCandidates(best) {
			if ok, r := try(cand, tape); ok {
				best = cand
				_ = r
				progress = true
				break
			}
		}
		if execs >= 400 || time.Now().After(deadline) {
			break
		}
	}
	// final tape: what the last accepted execution actually chose
	if ok, r := try(best, tape); ok {
		tape = trimZeros(r.Tape)
	}
	return &Replay{Property: pd.ID, Rule: f.Rule, Signature: f.Sig, Detail: detail, Scenario: best, Tape: tape, Shrunk: origSteps}
}

func trimZeros(t []int32) []int32 {
	n := len(t)
	for n > 0 && t[n-1] == 0 {
		n--
	}
	return append([]int32{}, t[:n]...)
}

// shrinkCandidates lists scenarios that are each one simplification away.
func shrinkCandidates(s *Scenario) []*Scenario {
	var out []*Scenario
	add := func(mut func(c *Scenario) bool) {
		c := cloneScenario(s)
		if mut(c) {
			out = append(out, c)
		}
	}
	// scheduler / network personality
	add(func(c *Scenario) bool {
		if c.Sched.Personality == "uniform" || c.Sched.Personality == "" {
			return false
		}
		c.Sched.Personality = "uniform"
		return true
	})
	add(func(c *Scenario) bool {
		if c.Sched.ReadMode == "all" {
			return false
		}
		c.Sched.ReadMode = "all"
		return true
	})
	add(func(c *Scenario) bool {
		if c.Sched.TickPermil == 0 {
			return false
		}
		c.Sched.TickPermil = 0
		return true
	})
	// faults
	for i := range s.Net.Conns {
		cc := &s.Net.Conns[i]
		for k := range cc.FaultsA {
			i, k := i, k
			add(func(c *Scenario) bool {
				f := c.Net.Conns[i].FaultsA
				c.Net.Conns[i].FaultsA = append(f[:k:k], f[k+1:]...)
				return true
			})
		}
		for k := range cc.FaultsB {
			i, k := i, k
			add(func(c *Scenario) bool {
				f := c.Net.Conns[i].FaultsB
				c.Net.Conns[i].FaultsB = append(f[:k:k], f[k+1:]...)
				return true
			})
		}
		for k := range cc.Cuts {
			i, k := i, k
			add(func(c *Scenario) bool {
				f := c.Net.Conns[i].Cuts
				c.Net.Conns[i].Cuts = append(f[:k:k], f[k+1:]...)
				return true
			})
		}
		for k := range cc.Stalls {
			i, k := i, k
			add(func(c *Scenario) bool {
				f := c.Net.Conns[i].Stalls
				c.Net.Conns[i].Stalls = append(f[:k:k], f[k+1:]...)
				return true
			})
		}
	}
	// links: drop whole links from the end
	if len(s.Links) > 1 {
		add(func(c *Scenario) bool { c.Links = c.Links[:len(c.Links)-1]; return true })
	}
	for li := range s.Links {
		l := &s.Links[li]
		li := li
		// script items: drop from the end, then singly
		for k := len(l.Script) - 1; k >= 0; k-- {
			k := k
			add(func(c *Scenario) bool {
				sc := c.Links[li].Script
				c.Links[li].Script = append(sc[:k:k], sc[k+1:]...)
				return true
			})
		}
		for k := range l.Script {
			k := k
			it := &l.Script[k]
			if it.Pay.Len > 0 && it.Kind != "raw" { // a raw frame's length may be what makes it a violation
				add(func(c *Scenario) bool { c.Links[li].Script[k].Pay.Len /= 2; return true })
				add(func(c *Scenario) bool { c.Links[li].Script[k].Pay.Len--; return true })
			}
			if len(it.Frags) > 0 {
				add(func(c *Scenario) bool {
					c.Links[li].Script[k].Frags = c.Links[li].Script[k].Frags[:len(it.Frags)-1]
					return true
				})
			}
			if len(it.Ctls) > 0 {
				add(func(c *Scenario) bool {
					c.Links[li].Script[k].Ctls = c.Links[li].Script[k].Ctls[:len(it.Ctls)-1]
					return true
				})
			}
			if it.Comp > 1 {
				add(func(c *Scenario) bool { c.Links[li].Script[k].Comp = 1; return true })
			}
		}
		if l.ScriptChunk != 0 {
			add(func(c *Scenario) bool { c.Links[li].ScriptChunk = 0; return true })
		}
		// tasks
		for side := 0; side < 2; side++ {
			side := side
			tasks := l.CTasks
			if side == 1 {
				tasks = l.STasks
			}
			get := func(c *Scenario) *[]TaskCfg {
				if side == 1 {
					return &c.Links[li].STasks
				}
				return &c.Links[li].CTasks
			}
			for ti := len(tasks) - 1; ti >= 0; ti-- {
				ti := ti
				tk := &tasks[ti]
				if tk.Kind == "ctl" || tk.Kind == "closer" {
					add(func(c *Scenario) bool {
						ts := get(c)
						*ts = append((*ts)[:ti:ti], (*ts)[ti+1:]...)
						return true
					})
				}
				for k := len(tk.W) - 1; k >= 0; k-- {
					k := k
					if tk.W[k].Kind == "barrier" || (tk.W[k].Kind == "ctl" && tk.W[k].MT == 8 && k == len(tk.W)-1) {
						continue // protocol ops of the scenario class
					}
					add(func(c *Scenario) bool {
						w := (*get(c))[ti].W
						(*get(c))[ti].W = append(w[:k:k], w[k+1:]...)
						return true
					})
				}
				for k := range tk.W {
					k := k
					op := &tk.W[k]
					if op.Pay.Len > 0 {
						add(func(c *Scenario) bool {
							o := &(*get(c))[ti].W[k]
							o.Pay.Len /= 2
							fixChunks(o)
							return true
						})
						add(func(c *Scenario) bool {
							o := &(*get(c))[ti].W[k]
							o.Pay.Len--
							fixChunks(o)
							return true
						})
					}
					if len(op.Chunks) > 1 {
						add(func(c *Scenario) bool {
							o := &(*get(c))[ti].W[k]
							o.Chunks = []Chunk{{How: "w", N: o.Pay.Len}}
							return true
						})
					}
				}
				if len(tk.R) > 1 {
					add(func(c *Scenario) bool { (*get(c))[ti].R = (*get(c))[ti].R[:1]; return true })
				}
				if tk.ExtraReads > 1 {
					add(func(c *Scenario) bool { (*get(c))[ti].ExtraReads = 1; return true })
				}
			}
		}
		// endpoint settings to defaults
		for side := 0; side < 2; side++ {
			side := side
			e := l.Client
			if side == 1 {
				e = l.Server
			}
			if e == nil {
				continue
			}
			get := func(c *Scenario) *EndCfg {
				if side == 1 {
					return c.Links[li].Server
				}
				return c.Links[li].Client
			}
			if e.ReadBuf != 0 {
				add(func(c *Scenario) bool { get(c).ReadBuf = 0; return true })
			}
			if e.WriteBuf != 0 {
				add(func(c *Scenario) bool { get(c).WriteBuf = 0; return true })
			}
			if e.Pool != 0 && len(s.Links) == 1 {
				add(func(c *Scenario) bool { get(c).Pool = 0; return true })
			}
			if e.Server == "nethttp" {
				add(func(c *Scenario) bool { get(c).Server = "mini"; return true })
			}
			if e.HijackR != 0 {
				add(func(c *Scenario) bool { get(c).HijackR = 0; return true })
			}
		}
	}
	if s.HS != nil {
		out = append(out, shrinkHS(s)...)
	}
	return out
}

func fixChunks(o *WOp) {
	if len(o.Chunks) == 0 {
		return
	}
	rem := o.Pay.Len
	for i := range o.Chunks {
		if h := o.Chunks[i].How; h == "e+" || h == "e-" || h == "l" || h == "cc" {
			continue
		}
		if o.Chunks[i].N > rem {
			o.Chunks[i].N = rem
		}
		rem -= o.Chunks[i].N
	}
	if rem > 0 {
		o.Chunks = append(o.Chunks, Chunk{How: "w", N: rem})
	}
}
