package wsim

import (
	"errors"
	"io"
	"net"
	"os"
	"time"
)

// ---------------------------------------------------------------------------
// SimNet: reliable ordered byte streams (TCP-like) with segmentation,
// back-pressure, stalls, cuts, op-indexed faults, deadlines and wire taps.
// ---------------------------------------------------------------------------

// Fault kinds (also indices into Stats.Faults).
const (
	fNone = iota
	fErr
	fTimeout
	fShort       // write: some bytes accepted, then an error
	fEOF         // read: io.EOF
	fErrBytes    // read: last bytes together with an error
	fTimeoutBytes
	fEOFBytes
	fCloseErr
	fStall
	fRST
	fDeadline // an armed deadline expired on a parked op
	fShortTimeout
	fHang // the op never completes by itself: only an armed deadline or Close ends it
	numFaultKinds
)

var faultNames = [...]string{"none", "error", "timeout", "short-write", "eof", "error-with-bytes",
	"timeout-with-bytes", "eof-with-bytes", "close-error", "stall", "rst", "deadline-expired", "short-write-timeout", "hang"}

type OpFault struct {
	Side string `json:"side"` // "r" read-side ops, "w" write-side ops, "a" all ops of the connection
	K    int    `json:"k"`    // index of the op on that side (0-based)
	AfterHead bool `json:"after_head,omitempty"` // "w" only: count write-side ops issued after this end's handshake head was written
	Kind int    `json:"kind"`
	N    int    `json:"n,omitempty"` // short write: bytes accepted before the error
}

type Cut struct {
	Dir    string `json:"dir"` // "ab" (dialer to acceptor) or "ba"
	Offset int64  `json:"offset"` // counted from the end of the handshake head (first CRLFCRLF) of that direction
	Abs    bool   `json:"abs,omitempty"` // Offset counts from the first byte of the direction instead
	ErrKind string `json:"err_kind,omitempty"` // error styles: "" a private error value | ueof io.ErrUnexpectedEOF (what crypto/tls reports for a dropped connection) | closedpipe io.ErrClosedPipe | netclosed net.ErrClosed
	Transient bool `json:"transient,omitempty"` // the error is reported once, then the stream carries on (a deadline that expired and was extended)
	Style  int    `json:"style"` // fEOF, fEOFBytes, fErr, fErrBytes, fTimeout, fTimeoutBytes
}

type Stall struct {
	Dir   string `json:"dir"`
	Side  string `json:"side"` // "w": writer not accepted, "r": reader not served
	At    int64  `json:"at"`   // byte count after the handshake head (accepted for "w", handed for "r") at which the stall starts
	Abs   bool   `json:"abs,omitempty"`
	DurMs int64  `json:"dur_ms"`
}

type ConnCfg struct {
	CapAB   int       `json:"cap_ab,omitempty"`
	CapBA   int       `json:"cap_ba,omitempty"`
	FaultsA []OpFault `json:"faults_a,omitempty"`
	FaultsB []OpFault `json:"faults_b,omitempty"`
	Cuts    []Cut     `json:"cuts,omitempty"`
	Stalls  []Stall   `json:"stalls,omitempty"`
	SinkAB  bool      `json:"sink_ab,omitempty"` // bytes A writes are tapped and dropped (infinite sink)
	SinkBA  bool      `json:"sink_ba,omitempty"`
	// After the first injected write fault the transport keeps accepting.
}

type simError struct {
	msg     string
	timeout bool
}

func (e *simError) Error() string   { return e.msg }
func (e *simError) Timeout() bool   { return e.timeout }
func (e *simError) Temporary() bool { return e.timeout }
func (e *simError) Is(t error) bool { return e.timeout && t == os.ErrDeadlineExceeded }

var (
	errInjected   = &simError{msg: "simnet: injected transport error"}
	errInjTimeout = &simError{msg: "simnet: i/o timeout (injected)", timeout: true}
	errDeadline   = &simError{msg: "simnet: i/o timeout", timeout: true}
	errReset      = &simError{msg: "simnet: connection reset by peer"}
	errPipe       = &simError{msg: "simnet: broken pipe"}
	errClosed     = net.ErrClosed
	errRefused    = &simError{msg: "simnet: connection refused"}
	// the injected error of runs drawn with plain_err: no Timeout/Temporary methods, i.e. not a net.Error
	// (io.ErrClosedPipe of net.Pipe, crypto/tls alerts and custom transports are of that sort)
	errInjectedPlain = errors.New("simnet: injected transport error (not a net.Error)")
)

func (s *Sim) injErr() error {
	if s.cfg.PlainErr {
		return errInjectedPlain
	}
	return errInjected
}

const tapMax = 8 << 20
const callLogCap = 1 << 15

type stallState struct {
	Stall
	started bool
	until   time.Duration
	forever bool
	done    bool
}

type pipe struct {
	ring   []byte
	rpos   int
	n      int
	tap    []byte
	tapN   int
	tapOvf bool
	total  int64 // bytes accepted from the writer
	handed int64 // bytes handed to the reader
	wclosed bool // writer closed (FIN)
	reset   bool // abortive close
	rclosed bool // reader closed: later writes vanish
	sink    bool
	cut     *Cut
	cutDone bool
	stalls  []stallState
	chunks  []tapChunk // (step, end offset) of every accepted chunk
	nchunks int
	headEnd int64 // bytes up to and including the first CRLFCRLF (-1 until seen)
	hdrSt   int
}

type tapChunk struct {
	Step uint64
	T    int64
	End  int64
}

// Call log entry (one per transport call).
type CallEntry struct {
	Step  uint64
	T     int64
	Op    uint8 // 'R','W','D' SetDeadline,'r' SetReadDeadline,'w' SetWriteDeadline,'C' Close
	Arg   int64 // len(p) or deadline (ns since sim start; -1 = zero time)
	N     int32
	Err   uint8 // 0 nil, 1 other, 2 timeout, 3 EOF, 4 closed
	Fault uint8
	All   int32 // index among all ops of the connection
	Dl    int64 // 'W': the write deadline armed on the connection when the call was made (ns since start; -1 none)
}

type SimConn struct {
	ID     int
	Name   string
	sim    *Sim
	in     *pipe
	out    *pipe
	peer   *SimConn
	rdl    time.Time
	wdl    time.Time
	closed bool
	nAll   int
	nR     int
	nW     int
	nWH    int // write-side ops since the head was written
	faults []OpFault
	log    []CallEntry
	nlog   int
	local  simAddr
	remote simAddr
	logOvf bool
	readBroken error // a failed read stays failed (a broken connection does not heal); timeouts heal when the deadline is re-armed
	// reach probes
	wroteAfterClose bool
}

type simAddr string

func (a simAddr) Network() string { return "sim" }
func (a simAddr) String() string  { return string(a) }

type Listener struct {
	id      int
	sim     *Sim
	addr    simAddr
	backlog [16]*SimConn
	nback   int
	closed  bool
}

// Node: something that can be dialled.
type node struct {
	addr  string
	lis   *Listener
	serve func(c *SimConn)
	refuse bool
	ns     int // namespace: nodes of sequential dials may reuse an address
}

type NetCfg struct {
	Conns    []ConnCfg `json:"conns,omitempty"`
	DefCap   int       `json:"def_cap,omitempty"`
}

type Net struct {
	sim   *Sim
	cfg   NetCfg
	nodes [128]node
	nn    int
	regNS int // namespace given to nodes registered from now on
	curNS int // namespace in which addresses are resolved
}

func (s *Sim) NewNet(cfg NetCfg) *Net {
	if cfg.DefCap == 0 {
		cfg.DefCap = 64 << 10
	}
	return &Net{sim: s, cfg: cfg}
}

// Listen registers a listening node.
func (n *Net) Listen(addr string) *Listener {
	s := n.sim
	l := &Listener{id: s.nlis, sim: s, addr: simAddr(addr)}
	s.liss[s.nlis] = l
	s.nlis++
	n.nodes[n.nn] = node{addr: addr, lis: l, ns: n.regNS}
	n.nn++
	return l
}

// Handle registers a node whose connections are served by f on a fresh
// goroutine (started by the dialling goroutine's release).
func (n *Net) Handle(addr string, f func(c *SimConn)) {
	n.nodes[n.nn] = node{addr: addr, serve: f, ns: n.regNS}
	n.nn++
}

//go:norace
func (n *Net) getNS() int { return n.curNS }

//go:norace
func (n *Net) SetNS(v int) { n.curNS = v }

// Dial connects to addr. The calling goroutine parks; the connection pair is
// created when the scheduler releases it.
func (n *Net) Dial(t *Task, addr string) (net.Conn, error) {
	var nd *node
	for i := 0; i < n.nn; i++ {
		if n.nodes[i].addr == addr && n.nodes[i].ns == n.getNS() {
			nd = &n.nodes[i]
		}
	}
	r := &parkRec{kind: opDial, task: t}
	n.sim.park(r)
	if r.abort {
		return nil, errClosed
	}
	if nd == nil || nd.refuse {
		return nil, errRefused
	}
	a, b := n.newPair(addr)
	if nd.lis != nil {
		if !nd.lis.enqueue(b) {
			return nil, errRefused
		}
	} else {
		go nd.serve(b)
	}
	return a, nil
}

//go:norace
func (l *Listener) enqueue(c *SimConn) bool {
	l.sim.lock()
	defer l.sim.unlock()
	if l.closed || l.nback == len(l.backlog) {
		return false
	}
	l.backlog[l.nback] = c
	l.nback++
	return true
}

//go:norace
func (n *Net) newPair(addr string) (*SimConn, *SimConn) {
	s := n.sim
	s.lock()
	defer s.unlock()
	idx := s.nconns / 2
	var cc ConnCfg
	if idx < len(n.cfg.Conns) {
		cc = n.cfg.Conns[idx]
	}
	if cc.CapAB == 0 {
		cc.CapAB = n.cfg.DefCap
	}
	if cc.CapBA == 0 {
		cc.CapBA = n.cfg.DefCap
	}
	ab := newPipe(cc.CapAB, cc.SinkAB)
	ba := newPipe(cc.CapBA, cc.SinkBA)
	for i := range cc.Cuts {
		c := cc.Cuts[i]
		if c.Dir == "ab" {
			ab.cut = &c
		} else {
			ba.cut = &c
		}
	}
	for _, st := range cc.Stalls {
		ss := stallState{Stall: st}
		if st.Dir == "ab" {
			ab.stalls = append(ab.stalls, ss)
		} else {
			ba.stalls = append(ba.stalls, ss)
		}
	}
	a := &SimConn{ID: s.nconns, sim: s, in: ba, out: ab, faults: cc.FaultsA,
		local: simAddr("client:" + itoa(idx)), remote: simAddr(addr)}
	b := &SimConn{ID: s.nconns + 1, sim: s, in: ab, out: ba, faults: cc.FaultsB,
		local: simAddr(addr), remote: simAddr("client:" + itoa(idx))}
	a.peer, b.peer = b, a
	a.log = arenaSlice[CallEntry](callLogCap)
	b.log = arenaSlice[CallEntry](callLogCap)
	s.conns[s.nconns] = a
	s.conns[s.nconns+1] = b
	s.nconns += 2
	return a, b
}

func itoa(i int) string {
	if i == 0 {
		return "0"
	}
	var b [20]byte
	p := len(b)
	for i > 0 {
		p--
		b[p] = byte('0' + i%10)
		i /= 10
	}
	return string(b[p:])
}

//go:norace
func newPipe(capacity int, sink bool) *pipe {
	p := &pipe{sink: sink, headEnd: -1}
	p.ring = theArena.alloc(capacity)
	p.tap = theArena.alloc(tapMax)
	p.chunks = arenaSlice[tapChunk](1 << 15)
	return p
}

// ---------------------------------------------------------------------------
// net.Conn
// ---------------------------------------------------------------------------

func (c *SimConn) LocalAddr() net.Addr  { return c.local }
func (c *SimConn) RemoteAddr() net.Addr { return c.remote }

//go:norace
func (c *SimConn) nextIdx(side byte) (all int, fault int, fn int) {
	s := c.sim
	s.lock()
	all = c.nAll
	var k int
	if side == 'r' {
		k = c.nR
		c.nR++
	} else {
		k = c.nW
		c.nW++
	}
	c.nAll++
	kh := -1
	if side == 'w' && c.out.headEnd >= 0 {
		kh = c.nWH
		c.nWH++
	}
	for i := range c.faults {
		f := &c.faults[i]
		if f.AfterHead {
			if f.Side == "w" && side == 'w' && f.K == kh {
				fault = f.Kind
				fn = f.N
			}
			continue
		}
		if (f.Side == "a" && f.K == all) || (f.Side == "r" && side == 'r' && f.K == k) || (f.Side == "w" && side == 'w' && f.K == k) {
			fault = f.Kind
			fn = f.N
		}
	}
	s.unlock()
	return
}

//go:norace
func (c *SimConn) logCall(op uint8, arg int64, n int, err error, fault int, all int) {
	c.logCallDl(op, arg, n, err, fault, all, 0)
}

//go:norace
func (c *SimConn) armedWriteDeadline() int64 { return relTime(c.sim, c.wdl) }

//go:norace
func (c *SimConn) logCallDl(op uint8, arg int64, n int, err error, fault int, all int, dl int64) {
	s := c.sim
	s.lock()
	if len(c.log) == cap(c.log) {
		c.logOvf = true
	}
	if len(c.log) < cap(c.log) {
		c.log = append(c.log, CallEntry{Step: s.step, T: int64(s.Now()), Op: op, Arg: arg, N: int32(n), Err: errCode(err), Fault: uint8(fault), All: int32(all), Dl: dl})
	}
	if fault != 0 && fault < numFaultKinds {
		s.stats.Faults[fault]++
	}
	s.unlock()
}

func errCode(err error) uint8 {
	switch {
	case err == nil:
		return 0
	case err == io.EOF:
		return 3
	case errors.Is(err, net.ErrClosed):
		return 4
	}
	if ne, ok := err.(net.Error); ok && ne.Timeout() {
		return 2
	}
	return 1
}

func (c *SimConn) Read(p []byte) (int, error) {
	all, fault, _ := c.nextIdx('r')
	r := &parkRec{kind: opRead, conn: c, n: len(p), fault: fault}
	c.sim.park(r)
	n := r.resN
	if n > 0 {
		c.in.consume(p[:n])
	}
	c.logCall('R', int64(len(p)), n, r.resErr, r.fault, all)
	return n, r.resErr
}

// consume copies n bytes from the ring into p (on the calling goroutine).
func (q *pipe) consume(p []byte) {
	n := len(p)
	first := len(q.ring) - q.rpos
	if first > n {
		first = n
	}
	copyOut(p[:first], q.ringSlice(q.rpos, first))
	if first < n {
		copyOut(p[first:], q.ringSlice(0, n-first))
	}
	q.advance(n)
}

//go:norace
func (q *pipe) ringSlice(off, n int) []byte { return q.ring[off : off+n] }

//go:norace
func (q *pipe) advance(n int) {
	q.rpos = (q.rpos + n) % len(q.ring)
	q.n -= n
	q.handed += int64(n)
}

func (c *SimConn) Write(p []byte) (int, error) {
	all, fault, fn := c.nextIdx('w')
	armed := c.armedWriteDeadline()
	done := 0
	r := &parkRec{kind: opWrite, conn: c, n: len(p), fault: fault, faultN: fn}
	for {
		r.done = done
		c.sim.park(r)
		if r.resN > 0 {
			c.out.accept(c.sim, p[done:done+r.resN])
			done += r.resN
		}
		if !r.resAgain {
			break
		}
	}
	c.logCallDl('W', int64(len(p)), done, r.resErr, r.fault, all, armed)
	return done, r.resErr
}

// accept appends p to the pipe (on the calling goroutine) and to the tap.
func (q *pipe) accept(s *Sim, p []byte) {
	n := len(p)
	if q.headPending() {
		q.scanHead(p)
	}
	if !q.tapOvfCheck(n) {
		copyIn(q.tapSlice(n), p)
	}
	if !q.isSink() {
		wpos, first := q.wposFirst(n)
		copyIn(q.ringSlice(wpos, first), p[:first])
		if first < n {
			copyIn(q.ringSlice(0, n-first), p[first:])
		}
	}
	q.accepted(s, n)
}

//go:norace
func (q *pipe) isSink() bool { return q.sink || q.rclosed }

//go:norace
func (q *pipe) headPending() bool { return q.headEnd < 0 }

// scanHead looks for the first CRLFCRLF (reads the caller's bytes: instrumented).
func (q *pipe) scanHead(p []byte) {
	st := q.getHdrSt()
	for i, b := range p {
		switch {
		case (st == 0 || st == 2) && b == '\r':
			st++
		case (st == 1 || st == 3) && b == '\n':
			st++
		case b == '\r':
			st = 1
		default:
			st = 0
		}
		if st == 4 {
			q.setHead(int64(i + 1))
			return
		}
	}
	q.setHdrSt(st)
}

//go:norace
func (q *pipe) getHdrSt() int { return q.hdrSt }

//go:norace
func (q *pipe) setHdrSt(v int) { q.hdrSt = v }

//go:norace
func (q *pipe) setHead(off int64) { q.headEnd = q.total + off }

// cutAt returns the absolute handed-byte count at which the cut takes effect
// (a head-relative cut is not armed until the head has been seen).
//
//go:norace
func (q *pipe) cutAt() (int64, bool) {
	if q.cut == nil {
		return 0, false
	}
	if q.cut.Abs {
		return q.cut.Offset, true
	}
	if q.headEnd < 0 {
		return 0, false
	}
	return q.headEnd + q.cut.Offset, true
}

//go:norace
func (q *pipe) stallAt(st *stallState) (int64, bool) {
	if st.Abs {
		return st.At, true
	}
	if q.headEnd < 0 {
		return 0, false
	}
	return q.headEnd + st.At, true
}

//go:norace
func (q *pipe) tapOvfCheck(n int) bool {
	if q.tapN+n > len(q.tap) {
		q.tapOvf = true
	}
	return q.tapOvf
}

//go:norace
func (q *pipe) tapSlice(n int) []byte { return q.tap[q.tapN : q.tapN+n] }

//go:norace
func (q *pipe) wposFirst(n int) (int, int) {
	wpos := (q.rpos + q.n) % len(q.ring)
	first := len(q.ring) - wpos
	if first > n {
		first = n
	}
	return wpos, first
}

//go:norace
func (q *pipe) accepted(s *Sim, n int) {
	if !q.tapOvf {
		q.tapN += n
	}
	if !q.isSink() {
		q.n += n
	}
	q.total += int64(n)
	if len(q.chunks) < cap(q.chunks) {
		q.chunks = append(q.chunks, tapChunk{Step: s.step, T: int64(s.Now()), End: q.total})
	}
}

func (c *SimConn) Close() error {
	all, fault, _ := c.nextIdx('w')
	r := &parkRec{kind: opClose, conn: c, fault: fault}
	c.sim.park(r)
	c.logCall('C', 0, 0, r.resErr, r.fault, all)
	return r.resErr
}

func relTime(s *Sim, t time.Time) int64 {
	if t.IsZero() {
		return -1
	}
	return int64(t.Sub(s.start))
}

func (c *SimConn) SetDeadline(t time.Time) error {
	c.yieldDl()
	all, fault, _ := c.nextIdx('w')
	err := c.setDl(t, true, true, fault)
	c.logCall('D', relTime(c.sim, t), 0, err, fault, all)
	return err
}

func (c *SimConn) SetReadDeadline(t time.Time) error {
	c.yieldDl()
	all, fault, _ := c.nextIdx('r')
	err := c.setDl(t, true, false, fault)
	c.logCall('r', relTime(c.sim, t), 0, err, fault, all)
	return err
}

func (c *SimConn) SetWriteDeadline(t time.Time) error {
	c.yieldDl()
	all, fault, _ := c.nextIdx('w')
	err := c.setDl(t, false, true, fault)
	c.logCall('w', relTime(c.sim, t), 0, err, fault, all)
	return err
}

// yieldDl makes a deadline call a scheduling point when the scenario asks for
// it: the caller parks with an always-enabled event before the call takes
// effect, so the clock may advance, or another goroutine's call on the same
// connection may come first.
func (c *SimConn) yieldDl() {
	if !c.sim.cfg.YieldOnDeadline || c.sim.isTearing() {
		return
	}
	c.sim.park(&parkRec{kind: opYield})
}

//go:norace
func (c *SimConn) setDl(t time.Time, rd, wr bool, fault int) error {
	s := c.sim
	s.lock()
	defer s.unlock()
	if c.closed {
		return errClosed
	}
	if fault != 0 && fault != fHang {
		return s.injErr()
	}
	if rd {
		c.rdl = t
		if c.readBroken == error(errInjTimeout) {
			c.readBroken = nil
		}
	}
	if wr {
		c.wdl = t
	}
	// a parked op may have become enabled: wake the driver if it sleeps
	select {
	case s.kick <- struct{}{}:
	default:
	}
	return nil
}

// ---------------------------------------------------------------------------
// Listener
// ---------------------------------------------------------------------------

func (l *Listener) Accept() (net.Conn, error) {
	r := &parkRec{kind: opAccept, lis: l}
	l.sim.park(r)
	if r.resErr != nil {
		return nil, r.resErr
	}
	return r.resConn, nil
}

//go:norace
func (l *Listener) Close() error {
	l.sim.lock()
	l.closed = true
	l.sim.unlock()
	return nil
}

func (l *Listener) Addr() net.Addr { return l.addr }

// ---------------------------------------------------------------------------
// Enabledness and outcomes (driver side)
// ---------------------------------------------------------------------------

// stalled reports whether side ('w' or 'r') of q is stalled now; it starts
// stalls whose threshold has been reached and returns the time left if the
// stall is finite.
//
//go:norace
func (q *pipe) stalled(s *Sim, side string, now time.Duration) (bool, time.Duration) {
	for i := range q.stalls {
		st := &q.stalls[i]
		if st.Side != side || st.done {
			continue
		}
		cnt := q.total
		if side == "r" {
			cnt = q.handed
		}
		if !st.started {
			at, armed := q.stallAt(st)
			if !armed || cnt < at {
				continue
			}
			st.started = true
			s.stats.Faults[fStall]++
			if st.DurMs < 0 {
				st.forever = true
			} else {
				st.until = now + time.Duration(st.DurMs)*time.Millisecond
			}
		}
		if st.forever {
			return true, 0
		}
		if now < st.until {
			return true, st.until - now
		}
		st.done = true
	}
	return false, 0
}

// writeLimit: the number of further bytes a stalled-at-threshold pipe accepts
// before its next write stall begins (so that a stall lands exactly at its
// byte offset, inside a frame if need be).
//
//go:norace
func (q *pipe) untilNextStall(side string) int64 {
	lim := int64(1 << 62)
	for i := range q.stalls {
		st := &q.stalls[i]
		if st.Side != side || st.started {
			continue
		}
		cnt := q.total
		if side == "r" {
			cnt = q.handed
		}
		at, armed := q.stallAt(st)
		if !armed {
			// the head is still being written: do not run past its end
			continue
		}
		if d := at - cnt; d > 0 && d < lim {
			lim = d
		}
	}
	return lim
}

// enabled computes the enabled events and the delay until the next
// simulator-known instant at which something may become enabled.
//
//go:norace
func (s *Sim) enabled(recs []*parkRec) ([]event, time.Duration) {
	evs := s.events[:0]
	now := s.Now()
	s.timeoutDue = false
	var next time.Duration
	for _, r := range recs {
		ok := false
		var wait time.Duration
		switch r.kind {
		case opYield, opDial:
			ok = true
		case opWait:
			ok = *r.waitVar >= r.waitVal
		case opAccept:
			ok = r.lis.closed || r.lis.nback > 0
		case opClose:
			ok = true
		case opRead:
			ok, wait = s.readEnabled(r, now)
		case opWrite:
			ok, wait = s.writeEnabled(r, now)
		}
		if ok {
			evs = append(evs, event{rec: r})
		}
		if wait > 0 && (next == 0 || wait < next) {
			next = wait // also for enabled ops: the clock must not be ticked past an armed deadline
		}
	}
	s.events = evs
	return evs, next
}

//go:norace
func (s *Sim) readEnabled(r *parkRec, now time.Duration) (bool, time.Duration) {
	c := r.conn
	q := c.in
	var wait time.Duration
	if !c.rdl.IsZero() {
		d := c.rdl.Sub(s.start)
		if now >= d {
			s.timeoutDue = true // whatever else enables the op: no clock tick before it is released
			return true, 0
		}
		wait = d - now
	}
	if r.fault == fHang {
		return c.closed, wait
	}
	if c.closed || r.fault != 0 || r.n == 0 || c.readBroken != nil {
		return true, wait
	}
	if st, left := q.stalled(s, "r", now); st {
		if left > 0 && (wait == 0 || left < wait) {
			wait = left
		}
		return false, wait
	}
	if at, ok := q.cutAt(); ok && q.handed >= at {
		return true, wait
	}
	if q.n > 0 || q.wclosed || q.reset {
		return true, wait
	}
	return false, wait
}

//go:norace
func (s *Sim) writeEnabled(r *parkRec, now time.Duration) (bool, time.Duration) {
	c := r.conn
	q := c.out
	var wait time.Duration
	if !c.wdl.IsZero() {
		d := c.wdl.Sub(s.start)
		if now >= d {
			s.timeoutDue = true
			return true, 0
		}
		wait = d - now
	}
	if r.fault == fHang {
		return c.closed, wait
	}
	if c.closed || r.fault != 0 || r.n-r.done == 0 {
		return true, wait
	}
	if st, left := q.stalled(s, "w", now); st {
		if left > 0 && (wait == 0 || left < wait) {
			wait = left
		}
		return false, wait
	}
	if q.isSink() || q.n < len(q.ring) {
		return true, wait
	}
	return false, wait
}

// apply decides the outcome of the chosen record and releases it.
//
//go:norace
func (s *Sim) apply(r *parkRec) {
	now := s.Now()
	r.resN, r.resErr, r.resAgain = 0, nil, false
	switch r.kind {
	case opYield, opDial, opWait:
	case opAccept:
		l := r.lis
		if l.nback > 0 {
			r.resConn = l.backlog[0]
			copy(l.backlog[:], l.backlog[1:l.nback])
			l.nback--
		} else {
			r.resErr = errClosed
		}
	case opClose:
		c := r.conn
		if c.closed {
			r.resErr = errClosed
		} else {
			c.closed = true
			c.out.wclosed = true
			c.in.rclosed = true
			if r.fault != 0 && r.fault != fHang {
				r.resErr = s.injErr()
				r.fault = fCloseErr
			}
		}
	case opRead:
		s.applyRead(r, now)
	case opWrite:
		s.applyWrite(r, now)
	}
	s.unpark(r)
}

//go:norace
func (s *Sim) drawReadN(max int) int {
	if max <= 1 {
		return max
	}
	mode := s.cfg.ReadMode
	if mode == "mixed" || mode == "" {
		switch s.ch.choose(4) {
		case 0:
			mode = "all"
		case 1:
			mode = "one"
		default:
			mode = "uniform"
		}
	}
	switch mode {
	case "all":
		return max
	case "one":
		return 1
	case "small":
		if max > 7 {
			max = 7
		}
		return 1 + s.ch.choose(max)
	default:
		return 1 + s.ch.choose(max)
	}
}

//go:norace
func (s *Sim) applyRead(r *parkRec, now time.Duration) {
	c := r.conn
	q := c.in
	switch {
	case c.closed:
		r.resErr = errClosed
		return
	case r.n == 0:
		return
	}
	if r.fault == fHang {
		// released only because the deadline passed (closed was handled above)
		r.resErr = errDeadline
		return
	}
	if c.readBroken != nil && r.fault == 0 {
		r.resErr = c.readBroken
		return
	}
	if r.fault != 0 {
		switch r.fault {
		case fTimeout:
			r.resErr = errInjTimeout
		case fEOF:
			r.resErr = io.EOF
		default:
			r.fault = fErr
			r.resErr = s.injErr()
		}
		c.readBroken = r.resErr
		return
	}
	if !c.rdl.IsZero() && now >= c.rdl.Sub(s.start) {
		r.resErr = errDeadline
		r.fault = fDeadline
		return
	}
	avail := q.n
	if avail > r.n {
		avail = r.n
	}
	if lim := q.untilNextStall("r"); int64(avail) > lim {
		avail = int(lim)
	}
	if cutOff, ok := q.cutAt(); ok {
		left := cutOff - q.handed
		if left <= 0 {
			r.resErr = cutErrKind(q.cut)
			r.fault = q.cut.Style
			if !q.cutDone {
				q.cutDone = true
			} else {
				r.fault = 0
			}
			if q.cut.Transient {
				q.cut = nil
			}
			return
		}
		if int64(avail) >= left {
			// this read can reach the cut
			avail = int(left)
			withBytes := q.cut.Style == fEOFBytes || q.cut.Style == fErrBytes || q.cut.Style == fTimeoutBytes
			n := avail
			if !(withBytes && s.ch.choose(2) == 0) {
				n = s.drawReadN(avail)
			}
			r.resN = n
			if withBytes && n == avail {
				r.resErr = cutErrKind(q.cut)
				r.fault = q.cut.Style
				q.cutDone = true
				if q.cut.Transient {
					q.cut = nil
				}
			}
			return
		}
	}
	if avail > 0 {
		r.resN = s.drawReadN(avail)
		return
	}
	if q.reset {
		r.resErr = errReset
		return
	}
	if q.wclosed {
		r.resErr = io.EOF
		return
	}
	s.harness = append(s.harness, "read released while not enabled")
}

func cutErrKind(c *Cut) error {
	if c.Style == fErr || c.Style == fErrBytes {
		switch c.ErrKind {
		case "ueof":
			return io.ErrUnexpectedEOF
		case "closedpipe":
			return io.ErrClosedPipe
		case "netclosed":
			return net.ErrClosed
		}
	}
	return cutErr(c.Style)
}

func cutErr(style int) error {
	switch style {
	case fEOF, fEOFBytes:
		return io.EOF
	case fTimeout, fTimeoutBytes:
		return errInjTimeout
	}
	return errInjected
}

//go:norace
func (s *Sim) applyWrite(r *parkRec, now time.Duration) {
	c := r.conn
	q := c.out
	left := r.n - r.done
	if c.closed {
		r.resErr = errClosed
		return
	}
	if r.fault == fHang {
		r.resErr = errDeadline
		return
	}
	if r.fault != 0 {
		switch r.fault {
		case fTimeout:
			r.resErr = errInjTimeout
		case fShort, fShortTimeout:
			n := r.faultN
			if n >= left {
				n = left - 1
			}
			if n < 0 {
				n = 0
			}
			if !q.isSink() {
				if space := len(q.ring) - q.n; n > space {
					n = space
				}
			}
			r.resN = n
			r.resErr = s.injErr()
			if r.fault == fShortTimeout {
				r.resErr = errInjTimeout
			}
		default:
			r.fault = fErr
			r.resErr = s.injErr()
		}
		return
	}
	if left == 0 {
		return
	}
	if !c.wdl.IsZero() && now >= c.wdl.Sub(s.start) {
		r.resErr = errDeadline
		r.fault = fDeadline
		return
	}
	if q.rclosed && c.peer != nil && c.peer.closed {
		// the peer has gone away: the bytes vanish
		c.wroteAfterClose = true
	}
	n := left
	if !q.isSink() {
		if space := len(q.ring) - q.n; n > space {
			n = space
		}
	}
	if lim := q.untilNextStall("w"); int64(n) > lim {
		n = int(lim)
	}
	r.resN = n
	r.resAgain = n < left
}

// ---------------------------------------------------------------------------
// Inspection (oracle side; called from the root goroutine after the run)
// ---------------------------------------------------------------------------

// Tap returns the bytes this connection has written so far.
//
//go:norace
func (c *SimConn) Tap() []byte {
	b := make([]byte, c.out.tapN)
	copy(b, c.out.tap[:c.out.tapN])
	return b
}

//go:norace
func (c *SimConn) TapOverflow() bool { return c.out.tapOvf }

//go:norace
func (c *SimConn) TapChunks() []tapChunk {
	out := make([]tapChunk, len(c.out.chunks))
	copy(out, c.out.chunks)
	return out
}

//go:norace
func (c *SimConn) Calls() []CallEntry {
	out := make([]CallEntry, len(c.log))
	copy(out, c.log)
	return out
}

//go:norace
func (c *SimConn) LogOverflow() bool { return c.logOvf || len(c.out.chunks) == cap(c.out.chunks) }

//go:norace
func (c *SimConn) IsClosed() bool { return c.closed }

// acceptedConn returns the accepting end of the first connection pair (nil before any dial).
//
//go:norace
func (s *Sim) acceptedConn() *SimConn {
	s.lock()
	defer s.unlock()
	if s.nconns < 2 {
		return nil
	}
	return s.conns[1]
}

//go:norace
func (c *SimConn) Deadlines() (rd, wr time.Time) { return c.rdl, c.wdl }

//go:norace
func (c *SimConn) BytesWritten() int64 { return c.out.total }

//go:norace
func (c *SimConn) BytesRead() int64 { return c.in.handed }

//go:norace
func (c *SimConn) Peer() *SimConn { return c.peer }

// StepOfByte returns the driver step at which byte offset off (0-based) of
// this connection's output was accepted by the transport.
func StepOfByte(chunks []tapChunk, off int64) (uint64, int64) {
	for _, ch := range chunks {
		if off < ch.End {
			return ch.Step, ch.T
		}
	}
	return 0, 0
}
