package wsim

import (
	"encoding/binary"
	"encoding/json"
	"fmt"
	"os"
	"path/filepath"
	"runtime"
	"strconv"
	"sync/atomic"
	"testing"
	"time"
)

// ---------------------------------------------------------------------------
// Worker: one OS process = a sequence of runs for one property.
// Controlled by environment variables (set by cmd/verifctl):
//   WSIM_MODE     explore | replay | digest
//   WSIM_PROP     property id
//   WSIM_SEED     base seed (VERIF_SEED)
//   WSIM_WORKER   worker index
//   WSIM_SECONDS  wall-clock budget for explore
//   WSIM_MAXRUNS  run cap
//   WSIM_OUT      directory for report.json / digests.bin / replay files
//   WSIM_TIER     quick | thorough
//   WSIM_REPLAY   replay file (replay mode)
//   WSIM_KNOWN    known_findings.json
// ---------------------------------------------------------------------------

type WorkerReport struct {
	Prop        string            `json:"prop"`
	Worker      int               `json:"worker"`
	Race        bool              `json:"race"`
	Runs        int               `json:"runs"`
	Nontrivial  int               `json:"nontrivial"`
	Obligations int               `json:"obligations"`
	Steps       uint64            `json:"steps"`
	ChoicePts   uint64            `json:"choice_points"`
	SimNanos    int64             `json:"sim_nanos"`
	WallS       float64           `json:"wall_s"`
	Faults      map[string]uint64 `json:"faults"`
	Probes      map[string]uint64 `json:"probes"`
	Classes     map[string]int    `json:"classes"`
	Reasons     map[string]int    `json:"reasons"`
	Discarded   map[string]int    `json:"discarded"`
	Samples     []json.RawMessage `json:"samples"`
	Violations  []ViolationRep    `json:"violations"`
	Known       map[string]string `json:"known"`
	Sites       map[string]int    `json:"sites"` // rule source positions that fired (every finding, duplicates included)
	HarnessErr  []string          `json:"harness_errors"`
}

type ViolationRep struct {
	Prop   string `json:"prop"`
	Sig    string `json:"sig"`
	Detail string `json:"detail"`
	Replay string `json:"replay"`
}

func envInt(k string, def int) int {
	if v := os.Getenv(k); v != "" {
		if n, err := strconv.Atoi(v); err == nil {
			return n
		}
	}
	return def
}

func envU64(k string, def uint64) uint64 {
	if v := os.Getenv(k); v != "" {
		if n, err := strconv.ParseUint(v, 10, 64); err == nil {
			return n
		}
		if n, err := strconv.ParseInt(v, 10, 64); err == nil {
			return uint64(n)
		}
	}
	return def
}

// scenarioFor regenerates the scenario of (base seed, property, worker, index).
func scenarioFor(pd *PropDef, base uint64, worker, index int, tier string) *Scenario {
	if tier == "thorough" && pd.Sweep != nil && worker%2 == 0 {
		// half of the thorough workers sweep fault positions over shared workloads
		S := pd.SweepN
		r := NewPRNG(Mix(base, pd.Num, uint64(worker), uint64(index/S), 0x5eeb))
		return plainErrDraw(pd.Sweep(r, index%S, S), Mix(base, pd.Num, uint64(worker), uint64(index), 0x91a1))
	}
	r := NewPRNG(Mix(base, pd.Num, uint64(worker), uint64(index)))
	return plainErrDraw(pd.Gen(r, tier), Mix(base, pd.Num, uint64(worker), uint64(index), 0x91a1))
}

// plainErrDraw makes the injected error of operation faults a plain error (not a net.Error) in a
// quarter of the runs. The draw comes from its own stream so that the generators' streams, and with
// them every other field of the scenario, stay what they were; it is recorded in the scenario.
func plainErrDraw(scn *Scenario, h uint64) *Scenario {
	if scn != nil && h%4 == 0 {
		scn.Sched.PlainErr = true
	}
	return scn
}

// judge runs a scenario and the property's oracle.
func judge(t *testing.T, pd *PropDef, scn *Scenario, tape []int32) *Run {
	run := Execute(t, scn, tape)
	if run.Deadlock != "" && len(run.Findings) == 0 {
		// handled by the oracle if the property cares; always recorded
	}
	func() {
		defer func() {
			if p := recover(); p != nil {
				run.fail("HARNESS", "oracle-panic", "oracle", "%v\n%s", p, stackTrace())
			}
		}()
		pd.Oracle(run)
	}()
	if run.Discard != "" {
		run.Findings = nil
		run.Obligations = 0
	}
	return run
}

func TestWorker(t *testing.T) {
	mode := os.Getenv("WSIM_MODE")
	if mode == "" {
		t.Skip("WSIM_MODE not set")
	}
	pd := props[os.Getenv("WSIM_PROP")]
	if pd == nil && mode != "replay" {
		t.Fatalf("unknown property %q", os.Getenv("WSIM_PROP"))
	}
	switch mode {
	case "explore":
		workerExplore(t, pd)
	case "replay":
		workerReplay(t)
	case "digest":
		workerDigest(t, pd)
	case "emit":
		workerEmit(pd)
	}
}

// workerEmit regenerates the scenario of a run that killed its worker and
// writes it as a replay file (no tape: the run re-explores with the PRNG
// derived from the scenario seed, which is deterministic).
func workerEmit(pd *PropDef) {
	scn := scenarioFor(pd, envU64("WSIM_SEED", 1), envInt("WSIM_WORKER", 0), envInt("WSIM_INDEX", 0), os.Getenv("WSIM_TIER"))
	sig := os.Getenv("WSIM_SIG")
	rp := &Replay{Property: pd.ID, Rule: sig, Signature: sig, Detail: os.Getenv("WSIM_DETAIL"), BaseSeed: envU64("WSIM_SEED", 1),
		Worker: envInt("WSIM_WORKER", 0), Index: envInt("WSIM_INDEX", 0), Race: os.Getenv("WSIM_RACEFLAG") != "", Scenario: scn}
	writeJSON(os.Getenv("WSIM_EMIT"), rp)
}

var heartbeat atomic.Int64

// watchdog runs outside any bubble: if no run completes for two minutes of
// wall time the worker reports a hang for the run named in its current file.
func startWatchdog() {
	heartbeat.Store(time.Now().UnixNano())
	go func() {
		for {
			time.Sleep(2 * time.Second)
			if time.Since(time.Unix(0, heartbeat.Load())) > 120*time.Second {
				fmt.Println("WATCHDOG: no progress for 120 s of wall time")
				buf := make([]byte, 1<<20)
				n := runtime.Stack(buf, true)
				os.Stdout.Write(buf[:n])
				os.Exit(3)
			}
		}
	}()
}

func workerExplore(t *testing.T, pd *PropDef) {
	base := envU64("WSIM_SEED", 1)
	worker := envInt("WSIM_WORKER", 0)
	secs := envInt("WSIM_SECONDS", 10)
	maxRuns := envInt("WSIM_MAXRUNS", 1<<30)
	tier := os.Getenv("WSIM_TIER")
	out := os.Getenv("WSIM_OUT")
	known := loadKnown(os.Getenv("WSIM_KNOWN"))
	cur, _ := os.OpenFile(filepath.Join(out, fmt.Sprintf("current.%d", worker)), os.O_CREATE|os.O_WRONLY|os.O_TRUNC, 0o644)
	rep := &WorkerReport{Prop: pd.ID, Worker: worker, Race: RaceBuild, Faults: map[string]uint64{}, Probes: map[string]uint64{},
		Classes: map[string]int{}, Reasons: map[string]int{}, Discarded: map[string]int{}, Known: map[string]string{}, Sites: map[string]int{}}
	digests := map[uint64]struct{}{}
	start := time.Now()
	deadline := start.Add(time.Duration(secs) * time.Second)
	seenSig := map[string]bool{}
	startWatchdog()
	for j := 0; j < maxRuns; j++ {
		heartbeat.Store(time.Now().UnixNano())
		if j%8 == 0 && time.Now().After(deadline) {
			break
		}
		if cur != nil {
			var b [64]byte
			n := copy(b[:], fmt.Sprintf("%s %d %d %d %s\n", pd.ID, base, worker, j, tier))
			cur.WriteAt(b[:n], 0)
		}
		scn := scenarioFor(pd, base, worker, j, tier)
		run := judge(t, pd, scn, nil)
		rep.Runs++
		rep.Steps += run.Stats.Steps
		rep.ChoicePts += run.Stats.ChoicePoint
		rep.SimNanos += run.Stats.SimNanos
		rep.Classes[scn.Class]++
		rep.Reasons[run.Reason]++
		if run.Discard != "" {
			rep.Discarded[run.Discard]++
		}
		for k, v := range run.Stats.Faults {
			if v > 0 {
				rep.Faults[faultNames[k]] += v
			}
		}
		for k, v := range run.Stats.Probes {
			if v > 0 {
				rep.Probes[probeNames[k]] += v
			}
		}
		if run.Discard == "" {
			reachOf(run, reachCounter(rep.Probes))
		}
		if run.Obligations > 0 {
			rep.Nontrivial++
			rep.Obligations += run.Obligations
			digests[run.Digest] = struct{}{}
		}
		if len(rep.Samples) < 3 && run.Obligations > 0 && j%3 == worker%3 {
			rep.Samples = append(rep.Samples, sampleOf(scn, run))
		}
		stop := false
		for _, f := range run.Findings {
			if f.Prop == "HARNESS" {
				if len(rep.HarnessErr) < 20 {
					rep.HarnessErr = append(rep.HarnessErr, fmt.Sprintf("worker %d run %d: %s: %s", worker, j, f.Rule, f.Detail))
				}
				rep.Discarded["harness:"+f.Rule]++
				continue
			}
			if f.Prop != pd.ID {
				rep.Discarded["other-property:"+f.Prop+"/"+f.Rule]++
				continue
			}
			rep.Sites[f.Rule+"@"+f.Site]++
			if seenSig[f.Sig] {
				continue
			}
			seenSig[f.Sig] = true
			// minimise, then write the replay file
			rp := minimise(t, pd, scn, run, f)
			rp.BaseSeed, rp.Worker, rp.Index, rp.Race = base, worker, j, RaceBuild
			path := filepath.Join(out, fmt.Sprintf("%s-w%d-r%d-%s.json", pd.ID, worker, j, sanitize(f.Rule)))
			writeJSON(path, rp)
			if what, ok := known.match(pd.ID, rp.Signature); ok {
				rep.Known[rp.Signature] = what
				continue
			}
			rep.Violations = append(rep.Violations, ViolationRep{Prop: pd.ID, Sig: rp.Signature, Detail: rp.Detail, Replay: path})
			stop = true
		}
		if stop && len(rep.Violations) >= 3 && os.Getenv("WSIM_NOSTOP") == "" {
			break // (WSIM_NOSTOP: keep exploring for the whole budget, used by the rule census of tools/)
		}
	}
	rep.WallS = time.Since(start).Seconds()
	// digests
	db := make([]byte, 0, len(digests)*8)
	for d := range digests {
		db = binary.LittleEndian.AppendUint64(db, d)
	}
	os.WriteFile(filepath.Join(out, fmt.Sprintf("digests.%d.bin", worker)), db, 0o644)
	writeJSON(filepath.Join(out, fmt.Sprintf("report.%d.json", worker)), rep)
	_ = runtime.NumGoroutine
}

func sanitize(s string) string {
	b := []byte(s)
	for i, c := range b {
		if !(c >= 'a' && c <= 'z' || c >= 'A' && c <= 'Z' || c >= '0' && c <= '9' || c == '-') {
			b[i] = '_'
		}
	}
	return string(b)
}

func writeJSON(path string, v interface{}) {
	b, _ := json.MarshalIndent(v, "", " ")
	os.WriteFile(path, b, 0o644)
}

func sampleOf(scn *Scenario, run *Run) json.RawMessage {
	type smp struct {
		Scenario *Scenario `json:"scenario"`
		Reason   string    `json:"end"`
		Steps    uint64    `json:"steps"`
		SimMs    int64     `json:"sim_ms"`
		Oblig    int       `json:"obligations_discharged"`
		Findings int       `json:"findings"`
	}
	b, _ := json.Marshal(smp{scn, run.Reason, run.Stats.Steps, run.Stats.SimNanos / 1e6, run.Obligations, len(run.Findings)})
	if len(b) > 6000 {
		b, _ = json.Marshal(map[string]interface{}{"class": scn.Class, "seed": scn.Seed, "note": "scenario too large to inline", "links": len(scn.Links),
			"end": run.Reason, "steps": run.Stats.Steps, "obligations_discharged": run.Obligations})
	}
	return b
}

// workerReplay re-executes a replay file; exit status 1 (test failure) iff the
// recorded signature reproduces.
func workerReplay(t *testing.T) {
	b, err := os.ReadFile(os.Getenv("WSIM_REPLAY"))
	if err != nil {
		fmt.Println("REPLAY-ERROR", err)
		os.Exit(2)
	}
	var rp Replay
	if err := json.Unmarshal(b, &rp); err != nil {
		fmt.Println("REPLAY-ERROR", err)
		os.Exit(2)
	}
	pd := props[rp.Property]
	if pd == nil {
		fmt.Println("REPLAY-ERROR unknown property", rp.Property)
		os.Exit(2)
	}
	startWatchdog()
	run := judge(t, pd, rp.Scenario, rp.Tape)
	found := false
	for _, f := range run.Findings {
		fmt.Printf("FINDING %s: %s\n", f.Sig, f.Detail)
		if f.Sig == rp.Signature {
			found = true
		}
	}
	fmt.Printf("REPLAY steps=%d reason=%s digest=%x\n", run.Stats.Steps, run.Reason, run.Digest)
	if os.Getenv("WSIM_VERBOSE") != "" {
		dumpRun(run)
	}
	if found {
		fmt.Printf("REPRODUCED %s\n", rp.Signature)
	} else {
		fmt.Printf("NOT-REPRODUCED %s\n", rp.Signature)
	}
}

// workerDigest prints the digests of a fixed list of runs (determinism self-test).
func workerDigest(t *testing.T, pd *PropDef) {
	base := envU64("WSIM_SEED", 1)
	n := envInt("WSIM_MAXRUNS", 50)
	tier := os.Getenv("WSIM_TIER")
	only := envInt("WSIM_INDEX", -1)
	for j := 0; j < n; j++ {
		if only >= 0 && j != only {
			continue
		}
		scn := scenarioFor(pd, base, 0, j, tier)
		if only >= 0 || envInt("WSIM_TRACEAT", -1) == j {
			traceOut = os.Stdout
		} else {
			traceOut = nil
		}
		run := judge(t, pd, scn, nil)
		fmt.Printf("DIGEST %d %016x %d %d\n", j, run.Digest, run.Stats.Steps, len(run.Findings))
	}
}

func dumpRun(run *Run) {
	if run.HS != nil {
		for i, res := range run.HS.Dials {
			fmt.Printf("  dial %d returned=%v conn=%v err=%q panic=%v t=%d..%d steps=%d..%d post=%q\n", i, res.Returned, res.Conn != nil, res.ErrText, res.Panic != "", res.Start, res.End, res.StepStart, res.StepEnd, res.PostErr)
			res.Proxy.RawFirst, res.Proxy.TunnelFirst, res.Proxy.FirstBytes = nil, nil, nil
			fmt.Printf("    proxy: %+v\n    backend: accepted=%d sni=%q upgraded=%v err=%q echoed=%d tlserr=%q first=%q\n", res.Proxy, res.Backend.Accepted, res.Backend.SNI, res.Backend.Upgraded, res.Backend.UpgradeErr, res.Backend.Echoed, res.Backend.TLSErr, clip(string(res.Backend.RawFirst)))
			for _, hc := range res.Hooks {
				fmt.Printf("    hook %s %s %s closedAtReturn=%v dl=%d/%d\n", hc.Hook, hc.Network, hc.Addr, hc.ClosedAtReturn, hc.RdAtReturn, hc.WrAtReturn)
				if hc.Conn != nil {
					for _, c := range hc.Conn.Calls() {
						fmt.Printf("      call %c all=%d step=%d t=%d arg=%d n=%d err=%d fault=%d\n", c.Op, c.All, c.Step, c.T, c.Arg, c.N, c.Err, c.Fault)
					}
				}
			}
		}
		if run.HS.Srv != nil {
			fmt.Printf("  srv: %+v\n  resp=%q\n", *run.HS.Srv, run.HS.SrvResp)
		}
	}
	for _, tk := range run.Tasks {
		fmt.Printf("  task %d %s ops=%d aborted=%v panic=%q\n", tk.ID, tk.Name, len(tk.Hist), tk.Aborted, tk.Panic)
		for _, r := range tk.Hist {
			fmt.Printf("     %s#%d mt=%d n=%d len=%d err=%s(%s) %s [step %d..%d t %d..%d]\n", r.Op, r.Idx, r.MsgType, r.N, len(r.Data), r.Err, r.ErrText, r.Note, r.Invoke, r.Return, r.TInvoke, r.TReturn)
		}
	}
	for _, e := range run.Reals {
		fmt.Printf("  end link=%d server=%v hs=%v neg=%v handlers=%d\n", e.Link, e.IsServer, e.HsErr, e.Negotiated, len(e.Handlers))
		if e.Net != nil {
			fmt.Printf("    tap(%d bytes after head)=%s\n", len(wsTap(e)), short(wsTap(e)))
			for _, c := range e.Net.Calls() {
				if os.Getenv("WSIM_CALLS") == "" {
					break
				}
				fmt.Printf("    call %c step=%d t=%d arg=%d n=%d err=%d fault=%d\n", c.Op, c.Step, c.T, c.Arg, c.N, c.Err, c.Fault)
			}
		}
	}
}
