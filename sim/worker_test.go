package wsim

import (
	"encoding/json"
	"fmt"
	"testing"
)

func smokeScenario(seed uint64) *Scenario {
	w := func(n int) []WOp {
		var ops []WOp
		for i := 0; i < n; i++ {
			ops = append(ops, WOp{Kind: "msg", MT: 2, Pay: Payload{Len: 10 + i*1000, Seed: seed + uint64(i)}})
		}
		ops = append(ops, WOp{Kind: "nw", MT: 1, Pay: Payload{Len: 9000, Kind: "text", Seed: 3}, Chunks: []Chunk{{How: "w", N: 10}, {How: "s", N: 5000}, {How: "rf", N: 9000, RfChunk: 100}}, End: "close"})
		ops = append(ops, WOp{Kind: "barrier", Lvl: 2})
		return ops
	}
	cw := append(w(3), WOp{Kind: "ctl", MT: 8, Code: 1000, DlMs: 5000})
	return &Scenario{Prop: "C01", Class: "smoke", Seed: seed,
		Sched: SchedCfg{Personality: "uniform"},
		Net:   NetCfg{DefCap: 4096},
		Links: []Link{{
			Client: &EndCfg{ReadBuf: 0, WriteBuf: 100, Compression: true},
			Server: &EndCfg{ReadBuf: 64, WriteBuf: 0, Compression: true, Server: "mini"},
			CTasks: []TaskCfg{{Kind: "writer", W: cw}, {Kind: "reader", R: []ROp{{Kind: "rm"}, {Kind: "nr", Sizes: []int{7, 300}}}}},
			STasks: []TaskCfg{{Kind: "writer", W: w(2)}, {Kind: "reader", R: []ROp{{Kind: "nr", Sizes: []int{1, 4000}}}}},
		}},
	}
}

func TestSmoke(t *testing.T) {
	for seed := uint64(1); seed <= 3; seed++ {
		scn := smokeScenario(seed)
		run := Execute(t, scn, nil)
		fmt.Printf("seed %d reason=%s steps=%d leaked=%d deadlock=%q harness=%v panics=%v digest=%x tape=%d\n", seed, run.Reason, run.Stats.Steps, run.Leaked, run.Deadlock, run.Harness, run.Panics, run.Digest, len(run.Tape))
		for _, tk := range run.Tasks {
			fmt.Printf("  task %d %s ops=%d aborted=%v\n", tk.ID, tk.Name, len(tk.Hist), tk.Aborted)
			for _, r := range tk.Hist {
				fmt.Printf("     %s mt=%d n=%d len=%d err=%s %s [%d..%d]\n", r.Op, r.MsgType, r.N, len(r.Data), r.Err, r.Note, r.Invoke, r.Return)
			}
		}
		run2 := Execute(t, scn, run.Tape)
		if run2.Digest != run.Digest {
			t.Fatalf("replay digest differs")
		}
		run3 := Execute(t, scn, nil)
		if run3.Digest != run.Digest {
			t.Fatalf("rerun digest differs")
		}
	}
	b, _ := json.Marshal(smokeScenario(1))
	fmt.Println(len(b))
}
