// Package wsframe is an RFC 6455 / RFC 7692 frame encoder and strict decoder
// written from the RFC text. It shares no code with gorilla/websocket; it is
// the scripted peer's voice and the judge behind every wire tap.
package wsframe

import (
	"bytes"
	"compress/flate"
	"encoding/binary"
	"fmt"
	"io"
	"unicode/utf8"
)

const (
	OpCont   = 0
	OpText   = 1
	OpBinary = 2
	OpClose  = 8
	OpPing   = 9
	OpPong   = 10
)

// Frame is one decoded (or to-be-encoded) frame.
type Frame struct {
	Fin, Rsv1, Rsv2, Rsv3 bool
	Opcode                byte
	Masked                bool
	Key                   [4]byte
	Payload               []byte // unmasked
	LenBytes              int    // 0 = minimal (encode) / 1,2,8 = extra length bytes seen: 0,2,8 (decode)
	Start, End            int    // byte offsets in the stream (decode)
}

func (f Frame) IsControl() bool { return f.Opcode >= 8 }

// Append encodes f onto dst. LenBytes selects the length form: 0 minimal,
// 2 or 8 force the 16/64-bit form (non-minimal encodings are used only by
// byzantine scripts).
func Append(dst []byte, f Frame) []byte {
	b0 := f.Opcode & 0x0f
	if f.Fin {
		b0 |= 0x80
	}
	if f.Rsv1 {
		b0 |= 0x40
	}
	if f.Rsv2 {
		b0 |= 0x20
	}
	if f.Rsv3 {
		b0 |= 0x10
	}
	n := len(f.Payload)
	form := f.LenBytes
	if form == 0 {
		switch {
		case n <= 125:
			form = 1
		case n <= 0xffff:
			form = 2
		default:
			form = 8
		}
	}
	var b1 byte
	if f.Masked {
		b1 = 0x80
	}
	dst = append(dst, b0)
	switch form {
	case 1:
		dst = append(dst, b1|byte(n))
	case 2:
		dst = append(dst, b1|126, byte(n>>8), byte(n))
	default:
		dst = append(dst, b1|127)
		var l [8]byte
		binary.BigEndian.PutUint64(l[:], uint64(n))
		dst = append(dst, l[:]...)
	}
	if f.Masked {
		dst = append(dst, f.Key[:]...)
		at := len(dst)
		dst = append(dst, f.Payload...)
		for i := at; i < len(dst); i++ {
			dst[i] ^= f.Key[(i-at)&3]
		}
	} else {
		dst = append(dst, f.Payload...)
	}
	return dst
}

// AppendRawHeader encodes a header that claims claimedLen payload bytes in
// the 64-bit form (used for huge / top-bit lengths); payload bytes, if any,
// are appended by the caller.
func AppendRawHeader(dst []byte, b0 byte, masked bool, key [4]byte, lenCode byte, claimed uint64) []byte {
	var b1 byte
	if masked {
		b1 = 0x80
	}
	dst = append(dst, b0)
	switch lenCode {
	case 126:
		dst = append(dst, b1|126, byte(claimed>>8), byte(claimed))
	case 127:
		dst = append(dst, b1|127)
		var l [8]byte
		binary.BigEndian.PutUint64(l[:], claimed)
		dst = append(dst, l[:]...)
	default:
		dst = append(dst, b1|byte(claimed&0x7f))
	}
	if masked {
		dst = append(dst, key[:]...)
	}
	return dst
}

// Violation describes why a byte stream is not well-formed.
type Violation struct {
	Offset int
	Rule   string
	Detail string
}

func (v *Violation) Error() string {
	return fmt.Sprintf("wire violation at byte %d: %s (%s)", v.Offset, v.Rule, v.Detail)
}

// Expect configures the strict decoder.
type Expect struct {
	Masked      bool // frames must be masked (sender is a client) / must not be
	Compression bool // permessage-deflate was negotiated: RSV1 allowed on first data frames
}

// Parse decodes as many complete frames as the stream holds. It returns the
// frames, the offset at which an incomplete trailing frame begins (== len if
// none), and the first violation of frame-level rules (header bits, masking,
// length minimality, control-frame rules).
func Parse(stream []byte, ex Expect) (frames []Frame, tail int, v *Violation) {
	p := 0
	for p < len(stream) {
		start := p
		if len(stream)-p < 2 {
			return frames, start, nil
		}
		b0, b1 := stream[p], stream[p+1]
		p += 2
		f := Frame{Fin: b0&0x80 != 0, Rsv1: b0&0x40 != 0, Rsv2: b0&0x20 != 0, Rsv3: b0&0x10 != 0,
			Opcode: b0 & 0x0f, Masked: b1&0x80 != 0, Start: start}
		if f.Rsv2 || f.Rsv3 {
			return frames, start, &Violation{start, "rsv23", "RSV2/RSV3 set"}
		}
		switch f.Opcode {
		case OpCont, OpText, OpBinary, OpClose, OpPing, OpPong:
		default:
			return frames, start, &Violation{start, "opcode", fmt.Sprintf("reserved opcode %d", f.Opcode)}
		}
		if f.Masked != ex.Masked {
			return frames, start, &Violation{start, "mask", fmt.Sprintf("MASK bit %v, expected %v", f.Masked, ex.Masked)}
		}
		if f.Rsv1 && (!ex.Compression || f.Opcode == OpCont || f.IsControl()) {
			return frames, start, &Violation{start, "rsv1", "RSV1 set where not allowed"}
		}
		l7 := uint64(b1 & 0x7f)
		n := l7
		switch l7 {
		case 126:
			if len(stream)-p < 2 {
				return frames, start, nil
			}
			n = uint64(binary.BigEndian.Uint16(stream[p:]))
			p += 2
			f.LenBytes = 2
			if n < 126 {
				return frames, start, &Violation{start, "length-minimal", fmt.Sprintf("16-bit form for %d", n)}
			}
		case 127:
			if len(stream)-p < 8 {
				return frames, start, nil
			}
			n = binary.BigEndian.Uint64(stream[p:])
			p += 8
			f.LenBytes = 8
			if n>>63 != 0 {
				return frames, start, &Violation{start, "length-topbit", "64-bit length with top bit set"}
			}
			if n < 65536 {
				return frames, start, &Violation{start, "length-minimal", fmt.Sprintf("64-bit form for %d", n)}
			}
		}
		if f.IsControl() {
			if n > 125 {
				return frames, start, &Violation{start, "control-length", fmt.Sprintf("control frame with %d bytes", n)}
			}
			if !f.Fin {
				return frames, start, &Violation{start, "control-fragmented", "control frame without FIN"}
			}
		}
		if f.Masked {
			if len(stream)-p < 4 {
				return frames, start, nil
			}
			copy(f.Key[:], stream[p:])
			p += 4
		}
		if uint64(len(stream)-p) < n {
			return frames, start, nil
		}
		f.Payload = make([]byte, n)
		copy(f.Payload, stream[p:p+int(n)])
		if f.Masked {
			for i := range f.Payload {
				f.Payload[i] ^= f.Key[i&3]
			}
		}
		p += int(n)
		f.End = p
		frames = append(frames, f)
	}
	return frames, len(stream), nil
}

// Item is one element of the message-level view of a frame sequence: a data
// message (reassembled and, if compressed, inflated) or a control frame.
type Item struct {
	Control    bool
	Opcode     byte   // OpText/OpBinary for messages, OpClose/OpPing/OpPong for control
	Payload    []byte // application payload
	Compressed bool
	Wire       []byte // concatenated fragment payloads before inflation
	NFrames    int
	FirstFrame int // index of the first frame
	LastFrame  int // index of the last frame
	InsideMsg  bool // control frame that arrived between fragments
	AtBytes    int  // control: bytes of the surrounding message's wire payload that preceded it
	CloseCode  int
	CloseText  string
	Keys       [][4]byte
}

// Assemble turns frames into items and checks message-structure rules. A
// trailing unfinished message is returned in open (nil if none).
func Assemble(frames []Frame) (items []Item, open *Item, v *Violation) {
	var cur *Item
	for i, f := range frames {
		switch {
		case f.IsControl():
			it := Item{Control: true, Opcode: f.Opcode, Payload: f.Payload, NFrames: 1, FirstFrame: i, LastFrame: i, InsideMsg: cur != nil}
			if cur != nil {
				it.AtBytes = len(cur.Wire)
			}
			if f.Masked {
				it.Keys = [][4]byte{f.Key}
			}
			if f.Opcode == OpClose {
				switch {
				case len(f.Payload) == 0:
					it.CloseCode = 1005
				case len(f.Payload) == 1:
					return items, cur, &Violation{f.Start, "close-body", "1-byte close body"}
				default:
					it.CloseCode = int(binary.BigEndian.Uint16(f.Payload))
					it.CloseText = string(f.Payload[2:])
					if !utf8.Valid(f.Payload[2:]) {
						return items, cur, &Violation{f.Start, "close-utf8", "close reason is not UTF-8"}
					}
				}
			}
			items = append(items, it)
		case f.Opcode == OpCont:
			if cur == nil {
				return items, nil, &Violation{f.Start, "continuation", "continuation frame with no message in progress"}
			}
			cur.Wire = append(cur.Wire, f.Payload...)
			cur.NFrames++
			cur.LastFrame = i
			if f.Masked {
				cur.Keys = append(cur.Keys, f.Key)
			}
			if f.Fin {
				if err := finish(cur); err != nil {
					return items, nil, &Violation{f.Start, "inflate", err.Error()}
				}
				items = append(items, *cur)
				cur = nil
			}
		default:
			if cur != nil {
				return items, cur, &Violation{f.Start, "interleaved-data", "new data frame inside an unfinished message"}
			}
			cur = &Item{Opcode: f.Opcode, Compressed: f.Rsv1, NFrames: 1, FirstFrame: i, LastFrame: i}
			cur.Wire = append([]byte{}, f.Payload...)
			if f.Masked {
				cur.Keys = append(cur.Keys, f.Key)
			}
			if f.Fin {
				if err := finish(cur); err != nil {
					return items, nil, &Violation{f.Start, "inflate", err.Error()}
				}
				items = append(items, *cur)
				cur = nil
			}
		}
	}
	return items, cur, nil
}

func finish(it *Item) error {
	if !it.Compressed {
		it.Payload = it.Wire
		return nil
	}
	p, err := Inflate(it.Wire)
	if err != nil {
		return err
	}
	it.Payload = p
	return nil
}

// Inflate decodes an RFC 7692 message payload: append 00 00 ff ff, inflate,
// and require that the input was consumed exactly (or, for the BFINAL form of
// §7.2.3.4, that what remains is the single 0x00 padding byte plus the tail).
func Inflate(wire []byte) ([]byte, error) {
	in := make([]byte, 0, len(wire)+4)
	in = append(in, wire...)
	in = append(in, 0x00, 0x00, 0xff, 0xff)
	br := bytes.NewReader(in)
	fr := flate.NewReader(br)
	var out bytes.Buffer
	_, err := io.Copy(&out, fr)
	switch {
	case err == io.ErrUnexpectedEOF && br.Len() == 0:
		// ran off the end after the final sync marker: the normal case
		return out.Bytes(), nil
	case err == nil:
		// a BFINAL=1 block ended the stream
		rest := in[len(in)-br.Len():]
		if bytes.Equal(rest, []byte{0x00, 0x00, 0x00, 0xff, 0xff}) || len(rest) == 4 || len(rest) == 0 {
			return out.Bytes(), nil
		}
		return nil, fmt.Errorf("deflate stream ended with %d unread bytes", len(rest))
	}
	return nil, fmt.Errorf("inflate: %v (unread %d)", err, br.Len())
}

// ---------------------------------------------------------------------------
// Deflate producers for the scripted peer
// ---------------------------------------------------------------------------

// Deflate kinds.
const (
	DefFlate      = iota // compress/flate at Level, one sync flush
	DefStored            // hand-rolled stored blocks
	DefFixed             // hand-rolled fixed-Huffman literals
	DefMultiBlock        // compress/flate, several sync-flushed blocks
	DefBFinal            // compress/flate closed stream (BFINAL=1) + 0x00, RFC 7692 §7.2.3.4
	NumDefKinds
)

// Deflate produces the permessage-deflate wire payload of data.
func Deflate(kind, level int, data []byte, blockSize int) []byte {
	switch kind {
	case DefStored:
		return deflateStored(data, blockSize)
	case DefFixed:
		return deflateFixed(data)
	case DefMultiBlock:
		var buf bytes.Buffer
		w, _ := flate.NewWriter(&buf, level)
		if blockSize <= 0 {
			blockSize = 1 + len(data)/3
		}
		for len(data) > 0 {
			n := blockSize
			if n > len(data) {
				n = len(data)
			}
			w.Write(data[:n])
			w.Flush()
			data = data[n:]
		}
		w.Flush()
		b := buf.Bytes()
		return b[:len(b)-4]
	case DefBFinal:
		var buf bytes.Buffer
		w, _ := flate.NewWriter(&buf, level)
		w.Write(data)
		w.Close()
		return append(buf.Bytes(), 0x00)
	default:
		var buf bytes.Buffer
		w, _ := flate.NewWriter(&buf, level)
		w.Write(data)
		w.Flush()
		b := buf.Bytes()
		return b[:len(b)-4]
	}
}

func deflateStored(data []byte, blockSize int) []byte {
	if blockSize <= 0 || blockSize > 65535 {
		blockSize = 65535
	}
	var out []byte
	for len(data) > 0 {
		n := blockSize
		if n > len(data) {
			n = len(data)
		}
		out = append(out, 0x00, byte(n), byte(n>>8), ^byte(n), ^byte(n>>8))
		out = append(out, data[:n]...)
		data = data[n:]
	}
	// final empty stored block 00 00 00 ff ff with the last four bytes removed
	return append(out, 0x00)
}

type bitWriter struct {
	out  []byte
	acc  uint32
	nbit uint
}

func (w *bitWriter) bits(v uint32, n uint) { // LSB first
	w.acc |= v << w.nbit
	w.nbit += n
	for w.nbit >= 8 {
		w.out = append(w.out, byte(w.acc))
		w.acc >>= 8
		w.nbit -= 8
	}
}

func (w *bitWriter) huff(code uint32, n uint) { // Huffman codes are packed MSB first
	var r uint32
	for i := uint(0); i < n; i++ {
		r = r<<1 | (code>>i)&1
	}
	w.bits(r, n)
}

func (w *bitWriter) align() {
	if w.nbit > 0 {
		w.out = append(w.out, byte(w.acc))
		w.acc, w.nbit = 0, 0
	}
}

func deflateFixed(data []byte) []byte {
	w := &bitWriter{}
	w.bits(0, 1) // BFINAL = 0
	w.bits(1, 2) // BTYPE = 01 fixed Huffman
	for _, b := range data {
		if b < 144 {
			w.huff(0x30+uint32(b), 8)
		} else {
			w.huff(0x190+uint32(b)-144, 9)
		}
	}
	w.huff(0, 7) // end of block
	// empty stored block, then drop its 00 00 ff ff
	w.bits(0, 1)
	w.bits(0, 2)
	w.align()
	return w.out
}
