package wsframe

import (
	"bytes"
	"math/rand"
	"testing"
)

func TestDeflaters(t *testing.T) {
	r := rand.New(rand.NewSource(1))
	for i := 0; i < 300; i++ {
		n := r.Intn(3000)
		data := make([]byte, n)
		switch i % 3 {
		case 0:
			r.Read(data)
		case 1:
			for j := range data {
				data[j] = byte('a' + j%7)
			}
		}
		for kind := 0; kind < NumDefKinds; kind++ {
			for _, lvl := range []int{-2, 0, 1, 6, 9} {
				w := Deflate(kind, lvl, data, r.Intn(700))
				got, err := Inflate(w)
				if err != nil || !bytes.Equal(got, data) {
					t.Fatalf("kind %d lvl %d n %d: %v", kind, lvl, n, err)
				}
			}
		}
	}
}

func TestRoundTrip(t *testing.T) {
	var s []byte
	s = Append(s, Frame{Fin: false, Opcode: OpText, Masked: true, Key: [4]byte{1, 2, 3, 4}, Payload: []byte("hel")})
	s = Append(s, Frame{Fin: true, Opcode: OpPing, Masked: true, Key: [4]byte{9, 9, 9, 9}, Payload: []byte("p")})
	s = Append(s, Frame{Fin: true, Opcode: OpCont, Masked: true, Payload: bytes.Repeat([]byte("x"), 70000)})
	fr, tail, v := Parse(s, Expect{Masked: true})
	if v != nil || tail != len(s) || len(fr) != 3 {
		t.Fatal(v, tail, len(fr))
	}
	items, open, v := Assemble(fr)
	if v != nil || open != nil || len(items) != 2 || !items[0].Control || len(items[1].Payload) != 70003 || items[0].AtBytes != 3 {
		t.Fatal(v, open, len(items))
	}
}
