#!/bin/bash
# usage: tools/benign.sh <patch.diff>   applies a behaviour-preserving change to /repo, runs every quick check, restores /repo
cd "$(dirname "$0")/.."
if [ -n "$(git -C /repo status --porcelain --untracked-files=no)" ]; then echo "/repo not clean"; exit 2; fi
git -C /repo apply "$1" || exit 2
tools/runall.sh quick
rc=$?
git -C /repo checkout -- .
exit $rc
