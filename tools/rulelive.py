#!/usr/bin/env python3
"""Liveness of oracle rules: hand-written faults that must make a named rule fire.

  tools/rulelive.py [id ...]

Reads rulelive/mutants.json: a list of {id, check, expect: [rule, ...], edits:
[{file, old, new}], note}. For each entry the textual edits are applied to
/repo (each `old` must occur exactly once), `go build` must succeed, the
check's quick tier runs for VERIF_QUICK_S (default 8) seconds, /repo is
restored, and the signatures of the reported violations are compared with the
expected rule names. These edits are probes of the machinery, not realistic
changes (they need not pass the library's test suite); the realistic ones are
under seeded/. Results go to rulelive/RESULTS.json.
"""
import json, os, subprocess, sys

VERIF = os.path.dirname(os.path.dirname(os.path.abspath(__file__)))
ENV = dict(os.environ, GOFLAGS="-mod=mod", GOPROXY="off", GOSUMDB="off")


def sh(cmd, cwd=None, env=ENV):
    p = subprocess.run(cmd, cwd=cwd, env=env, stdout=subprocess.PIPE, stderr=subprocess.STDOUT, text=True)
    return p.returncode, p.stdout


def stable_sites():
    """Maps file:line of every run.fail call in the oracles to a key that survives line shifts: file/rule#k."""
    import glob, re
    out = {}
    for f in sorted(glob.glob(os.path.join(VERIF, "sim", "*.go"))):
        seen = {}
        for i, l in enumerate(open(f), 1):
            mm = re.search(r'run\.fail\((\w+|"[A-Z0-9]+"),\s*"([a-z0-9-]+)"', l)
            if mm and mm.group(1) != '"HARNESS"':
                rule = mm.group(2)
                seen[rule] = seen.get(rule, 0) + 1
                out[os.path.basename(f) + ":" + str(i)] = "%s/%s#%d" % (os.path.basename(f), rule, seen[rule])
    return out


def record_sites(out, who):
    """Accumulates the rule source positions a check reported (line "sites: {...}") in rulelive/SITES.json."""
    path = os.path.join(VERIF, "rulelive", "SITES.json")
    acc = json.load(open(path)) if os.path.exists(path) else {}
    for l in out.split("\n"):
        if l.startswith("sites: "):
            smap = stable_sites()
            for k, v in json.loads(l[len("sites: "):]).items():
                k = smap.get(k.rsplit("@", 1)[1], k)
                e = acc.setdefault(k, dict(count=0, by=[]))
                e["count"] += v
                if who not in e["by"] and len(e["by"]) < 8:
                    e["by"].append(who)
    json.dump(acc, open(path, "w"), indent=1, sort_keys=True)


def main():
    muts = json.load(open(os.path.join(VERIF, "rulelive", "mutants.json")))
    want = sys.argv[1:]
    if want:
        muts = [m for m in muts if m["id"] in want]
    rc, out = sh(["git", "-C", "/repo", "status", "--porcelain", "--untracked-files=no"])
    if out.strip():
        print("/repo is not clean")
        sys.exit(2)
    respath = os.path.join(VERIF, "rulelive", "RESULTS.json")
    results = json.load(open(respath)) if os.path.exists(respath) else {}
    bad = []
    for m in muts:
        try:
            ok = True
            for e in m["edits"]:
                p = os.path.join("/repo", e["file"])
                s = open(p).read()
                if s.count(e["old"]) != 1:
                    print("%s: `old` occurs %d times in %s" % (m["id"], s.count(e["old"]), e["file"]))
                    ok = False
                    break
                open(p, "w").write(s.replace(e["old"], e["new"], 1))
            if not ok:
                bad.append(m["id"])
                continue
            rc, out = sh(["go", "build", "./..."], cwd="/repo")
            if rc != 0:
                print("%s: does not compile\n%s" % (m["id"], out[-1500:]))
                bad.append(m["id"])
                continue
            rc, out = sh(["./check", m["check"], "quick"], cwd=VERIF, env=dict(ENV, VERIF_QUICK_S=os.environ.get("VERIF_QUICK_S", "8")))
            sigs = [l[len("violation: "):].strip() for l in out.split("\n") if l.startswith("violation:")]
            record_sites(out, m["id"])
            fired = sorted({r for r in m["expect"] for s in sigs if ("/" + r + "/") in (s + "/") })
            results[m["id"]] = dict(check=m["check"], expect=m["expect"], exit=rc, fired=fired, signatures=sigs[:60], note=m.get("note", ""))
            status = "LIVE" if fired else ("other rules only" if sigs else "NOTHING FIRED")
            print("%-28s %s exit=%d %s | %s" % (m["id"], m["check"], rc, status, "; ".join(sigs[:5])), flush=True)
            if not fired:
                bad.append(m["id"])
        finally:
            sh(["git", "-C", "/repo", "checkout", "--", "."])
    json.dump(results, open(respath, "w"), indent=1, sort_keys=True)
    print("not live:", bad)


main()
