#!/usr/bin/env python3
"""Regenerates the probe table and the per-site census numbers of DESIGN.md section 14.7
(the last section of the file) from rulelive/mutants.json, RESULTS.json and SITES.json."""
import json, re, glob, os, collections
V = os.path.dirname(os.path.dirname(os.path.abspath(__file__)))
r = json.load(open(V + '/rulelive/RESULTS.json'))
M = json.load(open(V + '/rulelive/mutants.json'))
rows = ['| %s | %s | %s | %s |' % (m['id'], m['note'], m['check'], ', '.join('`%s`' % f for f in r[m['id']]['fired'])) for m in M]
acc = json.load(open(V + '/rulelive/SITES.json'))
fired = set(acc)
sites = {}
for f in sorted(glob.glob(V + '/sim/*.go')):
    seen = {}
    for i, l in enumerate(open(f), 1):
        mm = re.search(r'run\.fail\((\w+|"[A-Z0-9]+"),\s*"([a-z0-9-]+)"', l)
        if mm and mm.group(1) != '"HARNESS"':
            rule = mm.group(2)
            seen[rule] = seen.get(rule, 0) + 1
            sites['%s/%s#%d' % (os.path.basename(f), rule, seen[rule])] = rule
un = sorted(s for s in sites if s not in fired)
by = collections.Counter(sites[s] for s in un)
s = open(V + '/DESIGN.md').read()
a = s.index('| probe | fault | check | expected rules that fired |')
b = s.index('\n\n', a)
s = s[:a] + '| probe | fault | check | expected rules that fired |\n|---|---|---|---|\n' + '\n'.join(rows) + s[b:]
s = re.sub(r'holds \d+\nhand-written faults', 'holds %d\nhand-written faults' % len(M), s)
s = re.sub(r'Of the \d+ rule\nsites in the oracles, \d+ fired at least once\. The \d+ that never fired are: [^\n]*(\n[^\n]+)*?\.\nThe `panic` sites',
           'Of the %d rule\nsites in the oracles, %d fired at least once. The %d that never fired are: %s.\nThe `panic` sites' % (
               len(sites), len(sites) - len(un), len(un), ', '.join('`%s` x%d' % (k, v) if v > 1 else '`%s`' % k for k, v in sorted(by.items()))), s)
open(V + '/DESIGN.md', 'w').write(s)
print(len(M), 'probes;', len(sites), 'sites,', len(un), 'never fired')
