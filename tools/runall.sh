#!/bin/bash
# Runs every registered check (quick or thorough) in /verif against /repo's working tree and prints one line each.
cd "$(dirname "$0")/.."
tier=${1:-quick}
rc_all=0
for p in $(python3 -c "import json;print(' '.join(c['property_id'] for c in json.load(open('MANIFEST.json'))['checks']))"); do
  out=$(./check $p $tier 2>&1); rc=$?
  echo "$p exit=$rc $(echo "$out" | grep -E '^runs=' | cut -c1-120)"
  if [ $rc -ne 0 ]; then rc_all=1; echo "$out" | grep -E "^(violation|VIOLATION|HARNESS|KNOWN)" | head -8; fi
done
exit $rc_all
