#!/usr/bin/env python3
"""Re-runs the checks against every seeded change kept under /verif/seeded.

  tools/seedregress.py [id-prefix ...]

For each seeded/<id>: apply patch.diff to /repo, run the quick tier of the
checks that meta.json records as having caught it (or the property's own check
when none is recorded), restore /repo. A change counts as caught when at least
one of those checks exits 1. Prints one line per change and a summary; writes
seeded/REGRESSION.json. /repo is restored after every change.
"""
import json, os, subprocess, sys, time

ENV = dict(os.environ, GOFLAGS="-mod=mod", GOPROXY="off", GOSUMDB="off")
VERIF = os.path.dirname(os.path.dirname(os.path.abspath(__file__)))


def sh(cmd, cwd=None, env=ENV):
    p = subprocess.run(cmd, cwd=cwd, env=env, stdout=subprocess.PIPE, stderr=subprocess.STDOUT, text=True)
    return p.returncode, p.stdout


def stable_sites():
    """Maps file:line of every run.fail call in the oracles to a key that survives line shifts: file/rule#k."""
    import glob, re
    out = {}
    for f in sorted(glob.glob(os.path.join(VERIF, "sim", "*.go"))):
        seen = {}
        for i, l in enumerate(open(f), 1):
            mm = re.search(r'run\.fail\((\w+|"[A-Z0-9]+"),\s*"([a-z0-9-]+)"', l)
            if mm and mm.group(1) != '"HARNESS"':
                rule = mm.group(2)
                seen[rule] = seen.get(rule, 0) + 1
                out[os.path.basename(f) + ":" + str(i)] = "%s/%s#%d" % (os.path.basename(f), rule, seen[rule])
    return out


def record_sites(out, who):
    """Accumulates the rule source positions a check reported (line "sites: {...}") in rulelive/SITES.json."""
    path = os.path.join(VERIF, "rulelive", "SITES.json")
    acc = json.load(open(path)) if os.path.exists(path) else {}
    for l in out.split("\n"):
        if l.startswith("sites: "):
            smap = stable_sites()
            for k, v in json.loads(l[len("sites: "):]).items():
                k = smap.get(k.rsplit("@", 1)[1], k)
                e = acc.setdefault(k, dict(count=0, by=[]))
                e["count"] += v
                if who not in e["by"] and len(e["by"]) < 8:
                    e["by"].append(who)
    json.dump(acc, open(path, "w"), indent=1, sort_keys=True)


def main():
    pre = sys.argv[1:]
    ids = sorted(d for d in os.listdir(os.path.join(VERIF, "seeded")) if os.path.isdir(os.path.join(VERIF, "seeded", d)))
    if pre:
        ids = [i for i in ids if any(i.startswith(p) for p in pre)]
    rc, out = sh(["git", "-C", "/repo", "status", "--porcelain", "--untracked-files=no"])
    if out.strip():
        print("/repo is not clean")
        sys.exit(2)
    res = {}
    missed = []
    for sid in ids:
        d = os.path.join(VERIF, "seeded", sid)
        meta = json.load(open(os.path.join(d, "meta.json")))
        checks = [c for c, v in meta.get("checks", {}).items() if v.get("caught")] or [meta["property"]]
        rc, out = sh(["git", "-C", "/repo", "apply", os.path.join(d, "patch.diff")])
        if rc != 0:
            print(sid, "patch does not apply:", out.strip()[:200])
            res[sid] = dict(applies=False)
            missed.append(sid)
            continue
        caught = None
        detail = {}
        try:
            for cid in checks:
                t0 = time.time()
                rc, out = sh(["./check", cid, "quick"], cwd=VERIF, env=dict(ENV, VERIF_SEED=os.environ.get("VERIF_SEED", "1")))
                sigs = [l[len("violation: "):] for l in out.split("\n") if l.startswith("violation:")]
                record_sites(out, sid)
                detail[cid] = dict(exit=rc, wall_s=round(time.time() - t0, 1), signatures=sigs[:4])
                if rc == 1:
                    caught = cid
                    break
        finally:
            sh(["git", "-C", "/repo", "checkout", "--", "."])
        res[sid] = dict(applies=True, caught_by=caught, checks=detail)
        if not caught:
            missed.append(sid)
        print("%-8s %s %s" % (sid, "caught by " + caught if caught else "MISSED", "; ".join(detail.get(caught, {}).get("signatures", [])[:2]) if caught else json.dumps({c: v["exit"] for c, v in detail.items()})), flush=True)
    json.dump(dict(seed=int(os.environ.get("VERIF_SEED", "1")), results=res, missed=missed, total=len(ids)), open(os.path.join(VERIF, "seeded", "REGRESSION.json"), "w"), indent=1)
    print("total=%d caught=%d missed=%s" % (len(ids), len(ids) - len(missed), missed))
    sys.exit(1 if missed else 0)


main()
