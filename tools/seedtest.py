#!/usr/bin/env python3
"""Confirms a seeded change and runs checks against it.

  tools/seedtest.py <id> <property> <patch.diff> <demo_test.go> [check ids...]

1. In a scratch worktree of /repo (under /tmp, removed afterwards): the
   existing suite passes with the change, the demonstration fails with it and
   passes without it.
2. Applies the patch to /repo, runs `./check <cid> quick` for every listed
   check (default: the property itself), undoes the patch.
3. Writes /verif/seeded/<id>/{patch.diff, demo_test.go, meta.json}.
"""
import json, os, re, shutil, subprocess, sys, time

ENV = dict(os.environ, GOFLAGS="-mod=mod", GOPROXY="off", GOSUMDB="off")
VERIF = os.path.dirname(os.path.dirname(os.path.abspath(__file__)))


def sh(cmd, cwd=None, env=ENV, timeout=3600):
    p = subprocess.run(cmd, cwd=cwd, env=env, shell=isinstance(cmd, str), stdout=subprocess.PIPE, stderr=subprocess.STDOUT, text=True, timeout=timeout)
    return p.returncode, p.stdout


def main():
    sid, prop, patch, demo = sys.argv[1:5]
    checks = sys.argv[5:] or [prop]
    meta = dict(id=sid, property=prop, checks={}, confirmed={})
    wt = "/tmp/seedwt-%s" % sid
    sh(["git", "-C", "/repo", "worktree", "remove", "--force", wt])
    shutil.rmtree(wt, ignore_errors=True)
    rc, out = sh(["git", "-C", "/repo", "worktree", "add", "--detach", wt, "HEAD"])
    if rc != 0:
        print(out)
        sys.exit(2)
    try:
        demo_name = os.path.basename(demo)
        m = re.search(r"func (Test\w+)\(", open(demo).read())
        test = m.group(1) if m else "Test"
        # demo passes without the change
        shutil.copy(demo, os.path.join(wt, demo_name))
        rc0, out0 = sh("go test -count=1 -run '^%s$' ." % test, cwd=wt)
        meta["confirmed"]["demo_passes_without_change"] = rc0 == 0
        os.remove(os.path.join(wt, demo_name))
        # the change applies, compiles, the suite passes
        rc, out = sh(["git", "apply", os.path.abspath(patch)], cwd=wt)
        meta["confirmed"]["patch_applies"] = rc == 0
        if rc != 0:
            print(out)
        # the loopback proxy/TLS tests of the suite are flaky under load even on the unmodified tree: retry
        for attempt in range(4):
            rc1, out1 = sh("go build ./... && go test -count=1 ./...", cwd=wt)
            if rc1 == 0:
                break
            failed = set(re.findall(r"--- FAIL: (\w+)", out1))
            # (any failure is retried: the loopback tests are load-sensitive while many agents run)
            meta.setdefault("suite_flakes", []).append(sorted(failed))
        meta["confirmed"]["suite_passes_with_change"] = rc1 == 0
        if rc1 != 0:
            print(out1[-2000:])
        shutil.copy(demo, os.path.join(wt, demo_name))
        rc2, out2 = sh("go test -count=1 -run '^%s$' ." % test, cwd=wt)
        meta["confirmed"]["demo_fails_with_change"] = rc2 != 0
        meta["ran"] = ["go test -count=1 -run '^%s$' . (clean tree): %s" % (test, "pass" if rc0 == 0 else "FAIL"),
                       "git apply patch.diff && go build ./... && go test -count=1 ./...: %s" % ("pass" if rc1 == 0 else "FAIL"),
                       "go test -count=1 -run '^%s$' . (with change): %s" % (test, "fail (as intended)" if rc2 != 0 else "PASS (demo does not detect it)")]
    finally:
        sh(["git", "-C", "/repo", "worktree", "remove", "--force", wt])
        shutil.rmtree(wt, ignore_errors=True)
    ok = all(meta["confirmed"].values())
    print("confirmed:", json.dumps(meta["confirmed"]))
    # run the checks against it
    if ok:
        rc, out = sh(["git", "-C", "/repo", "status", "--porcelain", "--untracked-files=no"])
        if out.strip():
            print("/repo is not clean; refusing to apply")
            sys.exit(2)
        rc, out = sh(["git", "-C", "/repo", "apply", os.path.abspath(patch)])
        try:
            for cid in checks:
                t0 = time.time()
                rc, out = sh(["./check", cid, "quick"], cwd=VERIF, env=dict(ENV, VERIF_SEED=os.environ.get("VERIF_SEED", "1")))
                viol = [l for l in out.split("\n") if l.startswith("violation:")]
                meta["checks"][cid] = dict(exit=rc, caught=rc == 1, wall_s=round(time.time() - t0, 1), signatures=[v[len("violation: "):] for v in viol][:6])
                print("%s on %s: exit %d %s" % (cid, sid, rc, "; ".join(meta["checks"][cid]["signatures"][:3])))
                if rc == 2:
                    print(out[-3000:])
        finally:
            sh(["git", "-C", "/repo", "checkout", "--", "."])
    d = os.path.join(VERIF, "seeded", sid)
    os.makedirs(d, exist_ok=True)
    for src, name in ((patch, "patch.diff"), (demo, "demo_test.go")):
        if os.path.abspath(src) != os.path.join(d, name):
            shutil.copy(src, os.path.join(d, name))
    notes = os.path.splitext(patch)[0].replace(".patch", "") + ".notes.md"
    if os.path.exists(notes):
        meta["needs_to_manifest"] = open(notes).read()[:3000]
    elif os.path.exists(os.path.join(d, "meta.json")):
        old = json.load(open(os.path.join(d, "meta.json")))
        if "needs_to_manifest" in old:
            meta["needs_to_manifest"] = old["needs_to_manifest"]
    json.dump(meta, open(os.path.join(d, "meta.json"), "w"), indent=1)
    print("caught by:", [c for c, v in meta["checks"].items() if v["caught"]] or "NOTHING")


main()
